#!/bin/bash
# usage: tools/ingest_seed.sh <N> <PROP> <runs>   stage /tmp/outN under seeded/_incoming/N FIRST, then confirm and try.
N=$1; PROP=$2; RUNS=${3:-320}
mkdir -p /verif/seeded/_incoming
rm -rf /verif/seeded/_incoming/$N && cp -r /tmp/out$N /verif/seeded/_incoming/$N || exit 9
/verif/tools/verify_seed.sh $N > /tmp/verify$N.log 2>&1
echo "## $N verify: $(grep -E 'passed|failed' /tmp/verify$N.log | tr '\n' ' ') exits: $(grep -E 'exit=' /tmp/verify$N.log | tr '\n' ' ')"
/verif/tools/try_patch.sh /verif/seeded/_incoming/$N/patch.diff $RUNS $PROP > /tmp/try$N.log 2>&1
cut -c1-500 /tmp/try$N.log
