#!/bin/bash
# usage: tools/verify_seed.sh <N> : confirm a sub-agent's seeded change in /tmp/wtN (+ /tmp/outN):
# suite passes with the change, demo fails with it, demo passes without it.
# (no `git stash`: the stash is shared between worktrees, parallel verifications would mix)
N=$1; WT=/tmp/wt$N; OUT=/tmp/out$N
cd $WT || exit 9
echo "--- files changed:"; git status --short | head
git diff -- pyvaporation > /tmp/seed$N.diff
[ -s /tmp/seed$N.diff ] || { echo "NO CHANGE"; exit 9; }
echo "--- suite with change:"; timeout 1200 /venv/bin/python -m pytest -q -p no:cacheprovider --timeout=900 2>&1 | tail -2
echo "--- demo with change:"; MPLBACKEND=Agg timeout 300 /venv/bin/python $OUT/demo.py > /tmp/seed$N.with.log 2>&1; echo "exit=$?"; tail -3 /tmp/seed$N.with.log | cut -c1-300
git checkout -q -- pyvaporation
echo "--- demo without change:"; MPLBACKEND=Agg timeout 300 /venv/bin/python $OUT/demo.py > /tmp/seed$N.without.log 2>&1; echo "exit=$?"; tail -2 /tmp/seed$N.without.log | cut -c1-300
git apply /tmp/seed$N.diff
git status --short | head -5
