#!/venv/bin/python
"""Run the registered quick checks against every confirmed seeded change (scratch copies of
/repo, never /repo itself) and write seeded/REGRESSION.json.  usage: regress_seeds.py [seed ids...]
Environment: VERIF_SEED (default 0), REGRESS_PARALLEL (default 2 seeds at a time), REGRESS_OUT (result file for a
subset of the seeds; the full run writes seeded/REGRESSION.json)."""
import concurrent.futures as cf
import json
import os
import re
import shutil
import subprocess
import sys
import tempfile
import time

VERIF = os.path.dirname(os.path.dirname(os.path.abspath(__file__)))


def one(sid):
    d = os.path.join(VERIF, "seeded", sid)
    meta = json.load(open(os.path.join(d, "meta.json")))
    prop = meta["breaks_property"]
    work = tempfile.mkdtemp(prefix="pvmut-")
    try:
        os.makedirs(os.path.join(work, "tests"))
        shutil.copytree("/repo/pyvaporation", os.path.join(work, "pyvaporation"))
        shutil.copytree("/repo/tests/default_membranes", os.path.join(work, "tests", "default_membranes"))
        shutil.copytree("/repo/tests/VLE_data", os.path.join(work, "tests", "VLE_data"))
        subprocess.run(["git", "init", "-q", "."], cwd=work, capture_output=True)
        r = subprocess.run(["git", "apply", "--include=pyvaporation/*", os.path.join(d, "patch.diff")], cwd=work, capture_output=True, text=True)
        if r.returncode != 0:
            return sid, {"property": prop, "result": "patch-does-not-apply", "detail": r.stderr[-300:]}
        env = dict(os.environ, VERIF_REPO=work, VERIF_REPLAY_DIR=os.path.join(work, "replays"))
        t0 = time.time()
        p = subprocess.run(["/venv/bin/python", os.path.join(VERIF, "checks", "run.py"), prop, "--tier", "quick", "--no-evidence"],
                           env=env, capture_output=True, text=True, timeout=3600)
        out = p.stdout
        m = re.search(r"violation in run (\d+): (\{.*)", out)
        res = {"property": prop, "exit": p.returncode, "wall_s": round(time.time() - t0, 1)}
        if p.returncode == 1 and "VIOLATION property=%s" % prop in out:
            res["result"] = "caught"
            res["first_violating_run"] = int(m.group(1)) if m else None
            try:
                res["oracle"] = json.loads(m.group(2))["oracle"]
            except Exception:
                mm = re.search(r'"oracle": "([^"]+)"', out)
                res["oracle"] = mm.group(1) if mm else None
            mm = re.search(r"minimised: (\d+) -> (\d+) ops", out)
            if mm:
                res["minimised_ops"] = [int(mm.group(1)), int(mm.group(2))]
        elif p.returncode == 0:
            res["result"] = "MISSED"
        else:
            res["result"] = "harness-error"
            res["detail"] = out[-600:]
        return sid, res
    finally:
        shutil.rmtree(work, ignore_errors=True)


def main():
    ids = sys.argv[1:] or sorted(x for x in os.listdir(os.path.join(VERIF, "seeded")) if x.startswith("s") and os.path.isdir(os.path.join(VERIF, "seeded", x)))
    par = int(os.environ.get("REGRESS_PARALLEL") or 2)
    results = {}
    with cf.ThreadPoolExecutor(max_workers=par) as ex:
        for sid, res in ex.map(one, ids):
            results[sid] = res
            print(sid, json.dumps(res), flush=True)
    out = {"verif_seed": int(os.environ.get("VERIF_SEED") or 0), "tier": "quick", "results": results,
           "caught": sum(1 for r in results.values() if r["result"] == "caught"), "total": len(results)}
    if os.environ.get("REGRESS_OUT"):
        json.dump(out, open(os.environ["REGRESS_OUT"], "w"), indent=1)
    elif not sys.argv[1:]:
        json.dump(out, open(os.path.join(VERIF, "seeded", "REGRESSION.json"), "w"), indent=1)
    print("caught %d of %d" % (out["caught"], out["total"]))


if __name__ == "__main__":
    main()
