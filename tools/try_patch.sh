#!/bin/bash
# usage: tools/try_patch.sh <patch.diff> <runs> <prop> [<prop> ...]
# Applies a patch to a scratch copy of /repo (pyvaporation/ + test data) OUTSIDE /repo and /verif,
# runs the given checks against it (VERIF_REPO), removes the copy.  Never touches /repo.
set -u
PATCH=$(readlink -f "$1"); RUNS=$2; shift 2
D=$(mktemp -d /tmp/pvmut-XXXXXX)
trap 'rm -rf "$D"' EXIT
mkdir -p "$D/tests"
cp -r /repo/pyvaporation "$D/"
cp -r /repo/tests/default_membranes /repo/tests/VLE_data "$D/tests/"
( cd "$D" && git init -q . 2>/dev/null && git apply --include='pyvaporation/*' "$PATCH" ) || { echo "PATCH-DOES-NOT-APPLY"; exit 3; }
for P in "$@"; do
  echo "=== $P on $(basename $PATCH)"
  if [ "$RUNS" = "quick" ]; then
    VERIF_REPLAY_DIR="$D/replays" VERIF_REPO="$D" timeout 3000 /venv/bin/python /verif/checks/run.py "$P" --tier quick --no-evidence 2>&1 | grep -E "^(OK|VIOLATION|HARNESS|violation in|minimised|KNOWN)" | cut -c1-600
  else
    VERIF_REPLAY_DIR="$D/replays" VERIF_REPO="$D" timeout 3000 /venv/bin/python /verif/checks/run.py "$P" --runs "$RUNS" --no-evidence 2>&1 | grep -E "^(OK|VIOLATION|HARNESS|violation in|minimised|KNOWN)" | cut -c1-600
  fi
done
