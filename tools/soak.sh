#!/bin/bash
# usage: tools/soak.sh <first seed> <last seed> [props...]   — quick tier on the unchanged tree for many seeds;
# any line other than OK is a false alarm of the machinery (or a genuine defect) and must be triaged.
A=$1; B=$2; shift 2; PROPS=${@:-C17 C20 C16}
cd "$(dirname "$0")/.."
for s in $(seq $A $B); do
  for p in $PROPS; do
    out=$(VERIF_SEED=$s VERIF_REPLAY_DIR=$PWD/replays-soak /venv/bin/python checks/run.py $p --tier quick --no-evidence 2>&1 | grep -E "^(OK|VIOLATION|HARNESS|violation in)" | cut -c1-1500)
    echo "seed=$s $p :: $out"
  done
done
