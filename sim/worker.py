"""Lane worker process: executes the runs {i : i mod N_LANES == lane} of one batch.
argv: <config.json>.  Writes one JSON line per run to config["out"], a final stats line, and
exits 0 (batch done; violations are data) or 2 (harness error)."""
import faulthandler
import importlib
import json
import os
import sys
import time
import traceback

HERE = os.path.dirname(os.path.dirname(os.path.abspath(__file__)))
if HERE not in sys.path:
    sys.path.insert(0, HERE)

from sim.common import hash_seed_for  # noqa: E402
from sim.lane import HarnessError, LaneCtx  # noqa: E402

MODULES = {"C17": "sim.c17", "C20": "sim.c20", "C16": "sim.c16"}


def jsonable_stats(st):
    out = {}
    for k, v in st.items():
        if isinstance(v, set):
            out[k] = sorted(json.dumps(x) for x in v)
        else:
            out[k] = v
    return out


def main():
    cfg = json.load(open(sys.argv[1]))
    faulthandler.enable()
    faulthandler.dump_traceback_later(cfg.get("wall_cap_s", 3600), exit=True)
    mod = importlib.import_module(MODULES[cfg["prop"]])
    lane = cfg["lane"]
    vs = cfg["verif_seed"]
    hs_a = cfg.get("hash_seed_a") or hash_seed_for(vs, lane, "A")
    hs_b = cfg.get("hash_seed_b") or hash_seed_for(vs, lane, "B")
    out = open(cfg["out"], "w")
    stats = {}
    ctx = None
    code = 0
    try:
        ctx = LaneCtx(hs_a, hs_b, errdir=cfg.get("errdir"), repo=cfg.get("repo"), tag="%s-lane%02d" % (cfg["prop"], lane))
        out.write(json.dumps({"hello": {"lane": lane, "hash_seeds": [hs_a, hs_b], "repo": ctx.A.info.get("repo"),
                                        "clock_patched": ctx.A.info.get("clock_patched")}}) + "\n")
        for i in cfg["runs"]:
            t0 = time.time()
            if cfg.get("plans") and str(i) in cfg["plans"]:
                plan = cfg["plans"][str(i)]
            else:
                plan = mod.gen_plan(vs, i, **cfg.get("gen_opts", {}))
            res = mod.execute(ctx, plan, stats)
            line = {"run": i, "trace_digest": res["trace_digest"], "violation": res["violation"],
                    "sig": mod.signature(res["violation"]), "wall_s": round(time.time() - t0, 3),
                    "coverage_sig": res.get("coverage_sig"), "nontrivial": res.get("nontrivial", True)}
            if cfg.get("keep_traces"):
                line["trace"] = res["trace"]
            if cfg.get("samples") and i in cfg["samples"]:
                line["sample"] = mod.summarize(plan)
            out.write(json.dumps(line) + "\n")
            out.flush()
    except HarnessError as e:
        out.write(json.dumps({"harness_error": str(e)[-4000:]}) + "\n")
        code = 2
    except BaseException:
        out.write(json.dumps({"harness_error": traceback.format_exc()[-4000:]}) + "\n")
        code = 2
    finally:
        out.write(json.dumps({"stats": jsonable_stats(stats)}) + "\n")
        out.close()
        if ctx is not None:
            ctx.close()
    sys.exit(code)


if __name__ == "__main__":
    main()
