"""Session-side executor for C17 histories: real save/load code over simulated storage."""
import os
from pathlib import Path

from pyvaporation import (
    Conditions,
    DiffusionCurveSet,
    Measurements,
    Membrane,
    Pervaporation,
    PervaporationFunction,
    ProcessModel,
    find_best_fit,
    fit,
)

from . import build
from .seams import S


class Executor:
    def __init__(self, init):
        self.root = init["root"]
        self.world = init["world"]
        self.pool = self.world["pool"]
        self.objs = {}
        self.membranes = {}
        self.loaded = {}      # load op id -> object returned by the library (kept for "load, then save again")

    def describe(self):
        return {"pool": len(self.pool)}

    # ---- object pool (deterministic, memoised per session) ------------------------------
    def membrane(self, dirname):
        if dirname not in self.membranes:
            self.membranes[dirname] = build.load_membrane(self.root, os.path.join("_src", dirname))
        return self.membranes[dirname]

    def obj(self, i):
        """Pool object i, memoised per session.  Across the sessions of one run the pristine
        object (as returned by the real generator, before any save touched it) is kept as a
        pickle under <root>/_cache (harness-private, written through the un-intercepted open),
        so a restarted session does not pay for the model building again."""
        if i not in self.objs:
            import pickle
            from .seams import _REAL
            cdir = os.path.join(self.root, "_cache")
            cpath = os.path.join(cdir, "%d.pkl" % i)
            if os.path.exists(cpath):
                with _REAL["open"](cpath, "rb") as fh:
                    self.objs[i] = pickle.load(fh)
            else:
                o = self._build(self.pool[i])
                try:
                    os.makedirs(cdir, exist_ok=True)
                    with _REAL["open"](cpath + ".tmp", "wb") as fh:
                        pickle.dump(o, fh)
                    _REAL["rename"](cpath + ".tmp", cpath)
                except Exception:
                    pass
                self.objs[i] = o
        return self.objs[i]

    def _pv(self, item):
        return Pervaporation(membrane=self.membrane(item["membrane"]), mixture=build.mixture(item["mixture"]))

    def _build(self, item):
        kind = item["kind"]
        if kind == "process" and item.get("seq_types"):
            import numpy
            import pandas
            base = dict(item)
            kinds = base.pop("seq_types")
            pm = self._build(base)
            times = [float(t) for t in pm.time]
            for fld in sorted(kinds):
                vals = list(getattr(pm, fld))
                how = kinds[fld]
                if any(v is None for v in vals):
                    how = "tuple"                      # None entries stay None only in plain sequences
                if how == "tuple":
                    new = tuple(vals)
                elif how == "array":
                    new = numpy.array(vals, dtype=float)
                elif how == "series":
                    new = pandas.Series(vals, dtype=float)
                elif how == "series_time":
                    new = pandas.Series(vals, index=times, dtype=float)
                else:
                    new = pandas.Series(vals, index=range(3, 3 + len(vals)), dtype=float)
                setattr(pm, fld, new)
            return pm
        if kind == "process" and item.get("comments") is not None:
            base = dict(item)
            text = base.pop("comments")
            pm = self._build(base)
            pm.comments = text
            return pm
        if kind == "process" and item.get("ic_none"):
            base = dict(item)
            base.pop("ic_none")
            pm = self._build(base)
            pm.initial_conditions = None
            return pm
        if kind == "process" and item.get("cond_edit"):
            base = dict(item)
            ed = base.pop("cond_edit")
            pm = self._build(base)
            ic = pm.initial_conditions
            for key, attr_name in (("pt", "permeate_temperature"), ("pp", "permeate_pressure"), ("T", "initial_feed_temperature"),
                                   ("amount", "initial_feed_amount"), ("area", "membrane_area")):
                if key in ed:
                    setattr(ic, attr_name, ed[key])
            if "comp" in ed:
                ic.initial_feed_composition = build.composition(ed["comp"])
            return pm
        if kind == "process" and item.get("reexpress"):
            base = dict(item)
            u = base.pop("reexpress")
            whole = base.pop("reexpress_whole", False)
            pm = self._build(base)
            pm.permeances = [(p_[0].convert(to_units=u, component=pm.mixture.first_component),
                              p_[1].convert(to_units=u, component=pm.mixture.second_component)) for p_ in pm.permeances]
            if whole:
                from pyvaporation import Permeance
                pm.permeances = [(Permeance(value=int(round(p_[0].value)) + 1, units=u), Permeance(value=int(round(p_[1].value)) + 1, units=u))
                                 for p_ in pm.permeances]
            return pm
        if kind == "process" and item.get("blank_heats"):
            base = dict(item)
            blanks = base.pop("blank_heats")
            pm = self._build(base)
            heats = list(pm.permeate_condensation_heat)
            for j in blanks:
                if j < len(heats):
                    heats[j] = None
            pm.permeate_condensation_heat = heats
            return pm
        if kind == "process" and item.get("second_stage"):
            base = dict(item)
            st2 = base.pop("second_stage")
            first = self._build(base)
            nxt = dict(base, steps=st2["steps"], dt=st2["dt"])
            nxt["cond"] = dict(base["cond"], comp=st2["comp"])
            second = self._build(nxt)
            for name in ("feed_temperature", "feed_compositions", "permeate_composition", "permeate_temperature", "permeate_pressure",
                         "feed_mass", "partial_fluxes", "permeances", "time", "feed_evaporation_heat", "permeate_condensation_heat"):
                setattr(first, name, list(getattr(first, name)) + list(getattr(second, name)))
            return first
        if kind == "process":
            pv = self._pv(item)
            cond = build.conditions(item["cond"])
            model = item["model"]
            kw = dict(conditions=cond, number_of_steps=item["steps"], delta_hours=item["dt"],
                      precision=item.get("precision", 5e-5), calculation_type=item.get("calc", "NRTL"))
            if model == "ideal_iso":
                return pv.ideal_isothermal_process(**kw)
            if model == "ideal_noniso":
                return pv.ideal_non_isothermal_process(**kw)
            kw["diffusion_curve_set"] = build.curve_set(pv.membrane, item["set"])
            if item.get("init_perm"):
                kw["initial_permeances"] = (build.permeance(item["init_perm"][0]), build.permeance(item["init_perm"][1]))
            for k in ("n_first", "m_first", "n_second", "m_second"):
                if item.get(k) is not None:
                    kw[k] = item[k]
            kw["include_zero"] = bool(item.get("include_zero", False))
            if model == "nonideal_iso":
                return pv.non_ideal_isothermal_process(**kw)
            if model == "nonideal_noniso":
                return pv.non_ideal_non_isothermal_process(**kw)
            raise ValueError(model)
        if kind == "curve":
            how = item["how"]
            if how == "hand":
                return build.hand_curve(item)
            pv = self._pv(item)
            if how == "ideal":
                return pv.ideal_diffusion_curve(
                    feed_temperature=item["T"], compositions=[build.composition(c) for c in item["comps"]],
                    permeate_temperature=item.get("pt"), permeate_pressure=item.get("pp"),
                    calculation_type=item.get("calc", "NRTL"))
            if how == "nonideal":
                kw = {}
                if item.get("init_perm"):
                    kw["initial_permeances"] = (build.permeance(item["init_perm"][0]), build.permeance(item["init_perm"][1]))
                for k in ("n_first", "m_first", "n_second", "m_second"):
                    if item.get(k) is not None:
                        kw[k] = item[k]
                return pv.non_ideal_diffusion_curve(
                    diffusion_curve_set=build.curve_set(pv.membrane, item["set"]), feed_temperature=item["T"],
                    initial_feed_composition=build.composition(item["comp"]), delta_composition=item["dx"],
                    number_of_steps=item["steps"], permeate_temperature=item.get("pt"),
                    permeate_pressure=item.get("pp"), calculation_type=item.get("calc", "NRTL"),
                    include_zero=bool(item.get("include_zero", False)), **kw)
            raise ValueError(how)
        if kind == "fn":
            if item["how"] == "synthetic":
                return build.function(item)
            mem = self.membrane(item["membrane"])
            cs = build.curve_set(mem, item["set"])
            data = (Measurements.from_diffusion_curves_first(cs) if item["comp"] == 0
                    else Measurements.from_diffusion_curves_second(cs))
            if item.get("best"):
                return find_best_fit(data, n=item["n"], m=item["m"], component_index=item["comp"])
            return fit(data, n=item["n"], m=item["m"], component_index=item["comp"])
        if kind == "cond":
            return build.conditions(item["cond"])
        raise ValueError(kind)

    # ---- ops ---------------------------------------------------------------------------
    def prepare(self, op):
        if "obj" in op:
            if op.get("op") == "set_fits":
                self.obj(op["fits"][0]); self.obj(op["fits"][1])
            return self.obj(op["obj"])
        if "from_load" in op:
            if op["from_load"] not in self.loaded:
                raise LookupError("object of load op %r is not in this session" % (op["from_load"],))
            return self.loaded[op["from_load"]]
        return None

    def _p(self, rel):
        return Path(os.path.join(self.root, rel))

    def execute(self, op, obj):
        k = op["op"]
        if k == "set_fits":
            # a user action, not a library call: assign fitted functions to a model held by the session
            obj.permeance_fits = (self.obj(op["fits"][0]), self.obj(op["fits"][1]))
            return {"kind": "ok"}
        before = build.view_process(obj) if k == "save_process" else None     # the model as it is when save() is called
        try:
            res = self._call(k, op, obj)
        except Exception as e:
            return {"kind": "exc", "exc": type(e).__name__, "msg": str(e)[:300]}
        # views are harness code: an exception here is a harness error, not a library outcome
        out = {"kind": "ok"}
        if k in ("load_curve", "load_fn", "load_cond") and op.get("id") is not None:
            self.loaded[op["id"]] = res.diffusion_curves[0] if k == "load_curve" else res
        if k in ("save_process", "load_process"):
            out["view"] = build.view_process(res)
            if before is not None:
                if before["fits"] is None:
                    before["fits"] = out["view"]["fits"]      # save() documents that it fills in constant functions when there are none
                out["view_after_save"] = out["view"]
                out["view"] = before
        elif k == "save_curve":
            out["view"] = build.view_curve(res)
        elif k == "load_curve":
            out["n_curves"] = len(res.diffusion_curves)
            out["view"] = build.view_curve(res.diffusion_curves[0])
            if op.get("via_membrane"):
                out["sets"] = sorted(s_.name for s_ in (self._last_membrane.diffusion_curve_sets or []))
        elif k in ("save_fn", "load_fn"):
            out["view"] = build.view_fn(res)
        elif k in ("save_cond", "load_cond"):
            out["view"] = build.view_cond(res)
        elif k == "load_membrane":
            out["sets"] = sorted(s.name for s in (res.diffusion_curve_sets or []))
        return out

    def _call(self, k, op, obj):
        if k == "save_process":
            target = self._p(op["dir"])
            if op.get("as_str"):
                target = str(target)
            obj.save(target, op["safe"])
            return obj
        if k == "load_process":
            target = self._p(op["path"])
            if op.get("as_str"):
                target = str(target)
            return ProcessModel.load(target, op["safe"])
        if k == "save_curve":
            obj.save(self._p(op["file"]))
            return obj
        if k == "load_curve":
            if op.get("via_membrane"):
                mem = Membrane.load(self._p(op["via_membrane"]))
                self._last_membrane = mem
                return build.curve_set(mem, op["set"])
            return DiffusionCurveSet.load(self._p(op["file"]))
        if k == "save_fn":
            path = self._p(op["file"])
            if op.get("as_str"):
                path = str(path)
            if op["safe"]:
                obj.safe_save(path)
            else:
                obj.save(path)
            return obj
        if k == "load_fn":
            path = self._p(op["file"])
            if op.get("as_str"):
                path = str(path)
            return PervaporationFunction.safe_load(path) if op["safe"] else PervaporationFunction.load(path)
        if k == "save_cond":
            obj.safe_save(self._p(op["file"]))
            return obj
        if k == "load_cond":
            return Conditions.safe_load(self._p(op["file"]))
        if k == "load_membrane":
            return Membrane.load(self._p(op["dir"]))
        if k == "noop":
            return None
        raise RuntimeError("unknown op %r" % (k,))

    def after(self, op, out):
        return None

    def query(self, msg):
        return {"kind": "ok"}
