"""Session-side executor for call histories (C20 and C16): builds one shared object graph from
the explicit world spec (constructors and file loaders only, no modelling call) and executes
modelling calls whose arguments are *references into that graph*."""
import math
import os
from pathlib import Path

import numpy

from pyvaporation import (
    Component,
    Components,
    Composition,
    Conditions,
    DiffusionCurve,
    DiffusionCurveSet,
    HeatCapacityConstants,
    IdealExperiment,
    IdealExperiments,
    Measurements,
    Membrane,
    Mixture,
    Mixtures,
    NRTLParameters,
    Permeance,
    Pervaporation,
    PervaporationFunction,
    TemperatureProgram,
    UNIQUACConstants,
    UNIQUACParameters,
    VaporPressureConstants,
    VLEPoints,
    find_best_fit,
    fit,
    fit_vle,
    get_partial_pressures,
)
from pyvaporation.mixtures.mixture import calculate_activity_coefficients
from pyvaporation.mixtures import uniquac_fitting
from pyvaporation.optimizer.optimizer import Measurement

from . import build
from .canon import canon, cdigest, first_diff, plain


class World:
    pass


def _component(W, ref):
    if "builtin" in ref:
        return getattr(Components, ref["builtin"])
    return W.components[ref["custom"]]


def _mixture(W, ref):
    if "builtin" in ref:
        return getattr(Mixtures, ref["builtin"])
    return W.mixtures[ref["custom"]]


def build_world(root, spec):
    W = World()
    W.components = []
    for c in spec.get("custom_components", []):
        uq = c.get("uq")
        W.components.append(Component(
            name=c["name"], molecular_weight=c["mw"],
            vapour_pressure_constants=VaporPressureConstants(a=c["vp"]["a"], b=c["vp"]["b"], c=c["vp"]["c"], type=c["vp"]["type"]),
            heat_capacity_constants=HeatCapacityConstants(a=c["hc"][0], b=c["hc"][1], c=c["hc"][2], d=c["hc"][3]),
            uniquac_constants=None if uq is None else UNIQUACConstants(r=uq[0], q_geometric=uq[1], q_interaction=uq[2]),
        ))
    W.mixtures = []
    for m in spec.get("custom_mixtures", []):
        n, u = m.get("nrtl"), m.get("uniquac")
        W.mixtures.append(Mixture(
            name=m["name"], first_component=_component(W, m["first"]), second_component=_component(W, m["second"]),
            nrtl_params=None if n is None else NRTLParameters(g12=n["g12"], g21=n["g21"], alpha12=n["alpha12"], alpha21=n.get("alpha21"),
                                                              a12=n.get("a12", 0), a21=n.get("a21", 0)),
            uniquac_params=None if u is None else UNIQUACParameters(alpha_12=u[0], alpha_21=u[1], beta_12=u[2], beta_21=u[3], z=u[4]),
        ))
    W.compositions = [build.composition(c) for c in spec.get("compositions", [])]
    W.permeances = [build.permeance(p) for p in spec.get("permeances", [])]
    W.perm_tuples = [(W.permeances[i], W.permeances[j]) for i, j in spec.get("perm_tuples", [])]
    W.programs = [build.program(p) for p in spec.get("programs", [])]
    W.conditions = []
    for c in spec.get("conditions", []):
        W.conditions.append(Conditions(
            membrane_area=c["area"], initial_feed_temperature=c["T"], initial_feed_amount=c["amount"],
            initial_feed_composition=W.compositions[c["comp_ref"]], permeate_temperature=c.get("pt"),
            permeate_pressure=c.get("pp"),
            temperature_program=None if c.get("program_ref") is None else W.programs[c["program_ref"]],
        ))
    W.comp_lists = [[W.compositions[i] for i in idxs] for idxs in spec.get("comp_lists", [])]
    W.membranes = []
    for m in spec.get("membranes", []):
        if m.get("constructed"):
            exps = []
            for e in m["experiments"]:
                exps.append(IdealExperiment(name=m["dir"], temperature=e["T"], component=_component(W, e["component"]),
                                            permeance=build.permeance(e["permeance"]), activation_energy=e.get("ea")))
            W.membranes.append(Membrane(name=m["dir"], ideal_experiments=IdealExperiments(experiments=exps)))
        else:
            W.membranes.append(build.load_membrane(root, m["dir"]))
    W.curve_sets = []
    for ref in spec.get("curve_sets", []):
        if isinstance(ref, dict) and "replicate_of" in ref:
            # two curves measured at ONE temperature (replicates): legal, and not what the loaders produce
            src = W.curve_sets[ref["replicate_of"]]
            c = src.diffusion_curves[0]
            f = ref.get("factor", 1.03)
            second = DiffusionCurve(
                mixture=c.mixture, membrane_name=c.membrane_name, feed_temperature=c.feed_temperature,
                feed_compositions=[Composition(p=x.p, type=x.type) for x in c.feed_compositions][: max(2, len(c.feed_compositions) - 1)],
                partial_fluxes=[(fl[0] * f, fl[1] / f) for fl in c.partial_fluxes][: max(2, len(c.feed_compositions) - 1)],
                permeate_temperature=c.permeate_temperature, permeate_pressure=c.permeate_pressure, comments="replicate")
            first = DiffusionCurve(
                mixture=c.mixture, membrane_name=c.membrane_name, feed_temperature=c.feed_temperature,
                feed_compositions=list(c.feed_compositions), partial_fluxes=list(c.partial_fluxes),
                permeate_temperature=c.permeate_temperature, permeate_pressure=c.permeate_pressure,
                permeances=list(c.permeances), comments="replicate base")
            W.curve_sets.append(DiffusionCurveSet(name=src.name + "_replicates", diffusion_curves=[first, second]))
            continue
        if isinstance(ref, dict):
            src = W.curve_sets[ref["molar_copy_of"]]
            curves = []
            for c in src.diffusion_curves:
                curves.append(DiffusionCurve(
                    mixture=c.mixture, membrane_name=c.membrane_name, feed_temperature=c.feed_temperature,
                    feed_compositions=[x.to_molar(c.mixture) for x in c.feed_compositions],
                    partial_fluxes=None if c.partial_fluxes is None else list(c.partial_fluxes),
                    permeate_temperature=c.permeate_temperature, permeate_pressure=c.permeate_pressure,
                    permeances=None if c.permeances is None else list(c.permeances), comments="molar copy"))
            if ref.get("alias_first"):
                curves.append(curves[0])
            W.curve_sets.append(DiffusionCurveSet(name=src.name + "_molar", diffusion_curves=curves))
        else:
            W.curve_sets.append(build.curve_set(W.membranes[ref[0]], ref[1]))
    W.curves = []
    for c in spec.get("curves", []):
        if "from_set" in c:
            W.curves.append(W.curve_sets[c["from_set"]].diffusion_curves[c["index"]])
        else:
            kw = dict(mixture=_mixture(W, c["mixture"]), membrane_name=c.get("membrane_name", "hand"), feed_temperature=c["T"],
                      feed_compositions=[W.compositions[i] for i in c["comp_refs"]] if "comp_refs" in c else [build.composition(x) for x in c["comps"]],
                      permeate_temperature=c.get("pt"), permeate_pressure=c.get("pp"), comments=c.get("comments"))
            if c.get("fluxes") is not None:
                kw["partial_fluxes"] = [tuple(f) for f in c["fluxes"]]
            if c.get("perm_tuple_refs") is not None:
                kw["permeances"] = [W.perm_tuples[i] for i in c["perm_tuple_refs"]]
            W.curves.append(DiffusionCurve(**kw))
    W.measurements = []
    for ms in spec.get("measurements", []):
        if "points" in ms:
            mo = build.measurements(ms["points"])
            if ms.get("alias_dups"):
                # a measurement logged several times is the SAME Measurement object entered several times
                first = {}
                mo = type(mo)(data=[first.setdefault((repr(q.x), repr(q.t), repr(q.p)), q) for q in mo.data])
            W.measurements.append(mo)
        else:
            cs = W.curve_sets[ms["from_set"]]
            pts = []
            for curve in cs.diffusion_curves:   # harness' own extraction loop (the library extractors are ops)
                for i in range(len(curve.feed_compositions)):
                    pts.append(Measurement(x=curve.feed_compositions[i].first, t=curve.feed_temperature, p=curve.permeances[i][ms["component"]].value))
            W.measurements.append(Measurements(data=pts))
    W.functions = [build.function(f) for f in spec.get("functions", [])]
    W.vle = [VLEPoints.from_csv(Path(os.path.join(root, "vle", name))) for name in spec.get("vle", [])]
    W.pvs = [Pervaporation(membrane=W.membranes[p[0]], mixture=_mixture(W, p[1])) for p in spec.get("pvs", [])]
    W.scalars = {}
    return W


SNAP_POOLS = ["components", "mixtures", "compositions", "permeances", "perm_tuples", "programs", "conditions", "comp_lists",
              "membranes", "curve_sets", "curves", "measurements", "functions", "vle", "pvs"]


def _cwd():
    from .canon import _unroot
    try:
        return _unroot(os.getcwd())
    except OSError as e:
        return "<%s>" % type(e).__name__


def interpreter_state():
    """Interpreter-global state a modelling call has no business changing (reported as a probe,
    never as a violation by itself: the verdict needs a later call whose outcome differs)."""
    import sys
    import warnings
    out = {"numpy.geterr": dict(sorted(numpy.geterr().items())), "recursionlimit": sys.getrecursionlimit(), "cwd": _cwd(),
           "environ": cdigest(sorted(os.environ.items())), "warnings.filters": len(warnings.filters),
           "numpy.printoptions": cdigest(canon({k: v for k, v in numpy.get_printoptions().items() if k != "formatter"}))}
    try:
        import hashlib
        import random as _r
        out["random.state"] = hashlib.sha256(repr(_r.getstate()).encode()).hexdigest()[:16]
        out["numpy.random.state"] = hashlib.sha256(repr(numpy.random.get_state()).encode()).hexdigest()[:16]
    except Exception:
        pass
    try:
        import attr
        out["attr.validators.disabled"] = bool(attr.validators.get_disabled())
    except Exception:
        pass
    try:
        import pandas._config.config as _pc
        out["pandas.options"] = cdigest(canon(_pc._global_config))
    except Exception:
        pass
    try:
        import decimal
        import locale
        out["decimal.prec"] = decimal.getcontext().prec
        out["locale"] = repr(locale.getlocale())
        m = os.umask(0)
        os.umask(m)
        out["umask"] = m
        out["float_repr_style"] = sys.float_repr_style
    except Exception:
        pass
    return out


def library_state():
    """Digest of module-level and class-level data of every pyvaporation module (hidden-state
    probe; a change is not a verdict by itself, it triggers the witness calls of the lane)."""
    import sys
    import types
    out = {}
    for name in sorted(sys.modules):
        if not (name == "pyvaporation" or name.startswith("pyvaporation.")):
            continue
        mod = sys.modules[name]
        for k in sorted(vars(mod)):
            if k.startswith("__"):
                continue
            v = vars(mod)[k]
            if isinstance(v, types.ModuleType):
                continue
            if isinstance(v, type):
                if getattr(v, "__module__", None) != name:
                    continue
                for ck in sorted(vars(v)):
                    if ck.startswith("__"):
                        continue
                    cv = vars(v)[ck]
                    if callable(cv) or isinstance(cv, (classmethod, staticmethod, property, types.MemberDescriptorType)):
                        ci = getattr(getattr(cv, "__func__", cv), "cache_info", None)
                        if ci is not None:
                            out["%s.%s.%s#cache" % (name, k, ck)] = str(ci().currsize)
                        continue
                    try:
                        out["%s.%s.%s" % (name, k, ck)] = cdigest(canon(cv))
                    except Exception:
                        out["%s.%s.%s" % (name, k, ck)] = "?"
                continue
            if callable(v):
                ci = getattr(v, "cache_info", None)
                if ci is not None:
                    try:
                        out["%s.%s#cache" % (name, k)] = str(ci().currsize)
                    except Exception:
                        pass
                continue
            if getattr(v, "__module__", "") == "typing":
                continue
            try:
                out["%s.%s" % (name, k)] = cdigest(canon(v))
            except Exception:
                out["%s.%s" % (name, k)] = "?"
    return out


def snapshot_trees(W):
    out = {"builtin.Mixtures": canon(Mixtures), "builtin.Components": canon(Components)}
    for pool in SNAP_POOLS:
        for i, obj in enumerate(getattr(W, pool)):
            out["%s[%d]" % (pool, i)] = canon(obj)
    return out


def independent_eval(f, x, t):
    """alpha * exp(sum a_i x^(i+1) - sum b_i x^i / T) with math.fsum; returns (value, sum|terms|)."""
    terms = [float(f.a[i]) * (x ** (i + 1)) for i in range(len(f.a))]
    terms += [-float(f.b[i]) * (x ** i) / t for i in range(len(f.b))]
    e = math.fsum(terms)
    try:
        v = float(f.alpha) * math.exp(e)
    except OverflowError:
        v = math.copysign(math.inf, float(f.alpha))
    return v, math.fsum(abs(z) for z in terms)


def independent_loss(f, points, with_error=False):
    """Squared error on the points, and (optionally) a bound on how far two correct evaluations of it can
    differ: f is known to relative (1e-12 + 16 eps * sum|exponent terms|), the residuals are small
    differences of nearly equal numbers, so the bound is sum(2 |r| d + d^2) with d = |f| * that relative error."""
    eps = 2.220446049250313e-16
    tot, err = [], []
    for (x, t, p) in points:
        v, mag = independent_eval(f, x, t)
        r = v - p
        tot.append(r ** 2)
        if with_error and not (math.isinf(v) or v != v):
            d = abs(v) * (1e-12 + 16 * eps * mag)
            err.append(2 * abs(r) * d + d * d)
    try:
        loss = math.fsum(tot)
    except (OverflowError, ValueError):
        loss = math.inf
    if with_error:
        try:
            return loss, math.fsum(err)
        except (OverflowError, ValueError):
            return loss, math.inf
    return loss


def _fval(v):
    """A function value as plain data: float, or list of floats for a vector-valued function."""
    if isinstance(v, numpy.ndarray) and v.ndim > 0:
        return [float(q) for q in v.ravel()]
    return float(v)


class Executor:
    def __init__(self, init):
        self.root = init["root"]
        self.spec = init["world"]
        self.prop = init["prop"]
        self.W = build_world(self.root, self.spec)
        os.chdir(self.root)      # the caller works in the project directory (relative membrane paths resolve against it)
        self.snap0 = snapshot_trees(self.W)
        self.snap0_digests = {k: cdigest(v) for k, v in self.snap0.items()}
        self.interp0 = interpreter_state()
        self.kept = {}      # op id -> (object returned by that call and still held by the caller, its canonical form at that time)
        self.lib0 = library_state()
        self.last = None

    def describe(self):
        return {"world_digest": cdigest(sorted(self.snap0_digests.items())), "items": len(self.snap0_digests)}

    def prepare(self, op):
        return None

    # ---- argument resolution -----------------------------------------------------------
    def R(self, v):
        """Resolve references: {"$": [pool, index]} -> shared object; {"$c": ref} component; {"$m": ref} mixture;
        {"$list": [...]} -> fresh list of resolved; {"$tuple": [...]}"""
        W = self.W
        if isinstance(v, dict):
            if "$" in v:
                return getattr(W, v["$"][0])[v["$"][1]]
            if "$c" in v:
                return _component(W, v["$c"])
            if "$m" in v:
                return _mixture(W, v["$m"])
            if "$list" in v:
                return [self.R(x) for x in v["$list"]]
            if "$tuple" in v:
                return tuple(self.R(x) for x in v["$tuple"])
            if "$array" in v:
                return numpy.array(v["$array"], dtype=float)
            if "$npbool" in v:
                return numpy.bool_(v["$npbool"])
            if "$npfloat" in v:
                return numpy.float64(v["$npfloat"])
            if "$npint" in v:
                return numpy.int64(v["$npint"])        # an order that comes out of numpy / pandas instead of being typed in
            if "$new_comp" in v:
                return build.composition(v["$new_comp"])
            if "$new_perm" in v:
                return build.permeance(v["$new_perm"])
            return {k: self.R(x) for k, x in v.items()}
        if isinstance(v, list):
            return [self.R(x) for x in v]
        return v

    def execute(self, op, prep):
        fn = op["fn"]
        a = {k: self.R(v) for k, v in (op.get("args") or {}).items()}
        try:
            res = self._call(fn, op, a)
        except Exception as e:
            self.last = None
            return {"kind": "exc", "exc": type(e).__name__, "msg": str(e)[:200]}
        tree = canon(res, numeric=True)
        self.last = res
        out = {"kind": "ok", "digest": cdigest(tree), "tree": tree}
        if op.get("keep") and op.get("id") is not None:
            self.kept[str(op["id"])] = (res, canon(res))
            self._just_kept = str(op["id"])
        extra = self._derived(fn, op, res)
        if extra:
            out["derived"] = extra
        return out

    def after(self, op, out):
        cur = snapshot_trees(self.W)
        changed = []
        for k in sorted(cur):
            if k not in self.snap0_digests or cdigest(cur[k]) != self.snap0_digests[k]:
                d = first_diff(self.snap0.get(k), cur[k], k)
                changed.append({"item": k, "path": d[0] if d else k, "before": d[1] if d else None, "after": d[2] if d else None})
        for k in sorted(self.snap0_digests):
            if k not in cur:
                changed.append({"item": k, "path": k, "before": "present", "after": "absent"})
        cur_i = interpreter_state()
        drift = sorted(k for k in cur_i if cur_i[k] != self.interp0.get(k))
        kept_changed = []
        just = getattr(self, "_just_kept", None)
        self._just_kept = None
        for kid in sorted(self.kept):
            if kid == just:
                continue
            obj, before = self.kept[kid]
            now_ = canon(obj)
            if cdigest(now_) != cdigest(before):
                dd = first_diff(before, now_, "result_of_op_%s" % kid)
                kept_changed.append({"item": "result of op %s" % kid, "path": dd[0] if dd else kid, "before": dd[1] if dd else None, "after": dd[2] if dd else None})
        lib = library_state()
        libdrift = sorted(k for k in set(lib) | set(self.lib0) if lib.get(k) != self.lib0.get(k))
        return {"snapshot_changed": changed[:5], "interpreter_state_changed": drift, "library_state_changed": libdrift[:8],
                "kept_changed": kept_changed[:5]}

    def query(self, msg):
        return {"kind": "ok"}

    # ---- derived data for C16 oracles (harness code, independent formula) ----------------
    def _derived(self, fn, op, res):
        d = {}
        if op.get("eval_fits") and fn.startswith("non_ideal") and fn.endswith("process"):
            pm = res["model"] if isinstance(res, dict) else res
            rows = []
            for fi, f in enumerate(pm.permeance_fits or ()):
                g = op["eval_fits"]
                for (x, t) in g:
                    ind, mag = independent_eval(f, x, t)
                    rows.append([fi, "scalar", x, t, float(f(x, t)), ind, mag])
                xs = numpy.array([float(p[0]) for p in g])
                arr = f(xs, g[0][1])
                for x, v in zip(xs, list(arr)):
                    ind, mag = independent_eval(f, float(x), g[0][1])
                    rows.append([fi, "array-x", float(x), g[0][1], float(v), ind, mag])
                half = f * 0.5
                for (x, t) in g[:2]:
                    _, mag = independent_eval(f, x, t)
                    rows.append([fi, "scaled", x, t, float(half(x, t)), 0.5 * float(f(x, t)), mag])
            d["fits_eval"] = rows
        if fn == "fit_many" and isinstance(res, dict):
            d["fit_many"] = {"distinct": res["distinct"], "changed_at": res["changed_at"], "changed": res["changed"],
                             "first": build.view_fn(res["first"]), "count": res["count"]}
        if isinstance(res, PervaporationFunction):
            grid = op.get("grid")
            if grid:
                vals = []
                for (x, t) in grid:
                    try:
                        lib = float(res(x, t))
                    except Exception as e:
                        lib = "exc:" + type(e).__name__
                    ind, mag = independent_eval(res, x, t)
                    vals.append([x, t, lib, ind, mag])
                d["grid"] = vals
            lp = op.get("loss_on")
            if lp is not None:
                pts = self.spec["measurements"][lp].get("points")
                if pts is None:
                    pts = [[plain(m.x), plain(m.t), plain(m.p)] for m in self.W.measurements[lp].data]
                d["loss"], d["loss_err"] = independent_loss(res, pts, with_error=True)
                d["n_points"] = len(pts)
            d["fn"] = build.view_fn(res)
        if fn == "fit_vle" and op.get("objective_on") is not None:
            try:
                params = [res.alpha_12, res.alpha_21, res.beta_12, res.beta_21, res.z]
                d["objective"] = float(uniquac_fitting.objective(self.W.vle[op["objective_on"]], params))
            except Exception as e:
                d["objective"] = "exc:" + type(e).__name__
        return d

    # ---- the calls ---------------------------------------------------------------------
    def _call(self, fn, op, a):
        W = self.W
        if fn == "flux_from_permeate":
            return a.pop("pv").get_partial_fluxes_from_permeate_composition(**a)
        if fn == "partial_fluxes":
            return a.pop("pv").calculate_partial_fluxes(**a)
        if fn == "permeate_composition":
            return a.pop("pv").calculate_permeate_composition(**a)
        if fn == "separation_factor":
            return a.pop("pv").calculate_separation_factor(**a)
        if fn == "ideal_diffusion_curve":
            return a.pop("pv").ideal_diffusion_curve(**a)
        if fn == "non_ideal_diffusion_curve":
            return a.pop("pv").non_ideal_diffusion_curve(**a)
        if fn in ("ideal_isothermal_process", "ideal_non_isothermal_process", "non_ideal_isothermal_process", "non_ideal_non_isothermal_process"):
            pm = getattr(a.pop("pv"), fn)(**a)
            if op.get("then"):
                return {"model": pm, "metrics": {m: getattr(pm, m) for m in op["then"]}}
            return pm
        if fn == "get_permeance":
            return a.pop("membrane").get_permeance(**a)
        if fn == "calculate_activation_energy":
            return a.pop("membrane").calculate_activation_energy(**a)
        if fn == "get_ideal_selectivity":
            return a.pop("membrane").get_ideal_selectivity(**a)
        if fn == "get_estimated_pure_component_flux":
            return a.pop("membrane").get_estimated_pure_component_flux(**a)
        if fn == "get_penetrant_data":
            return a.pop("membrane").get_penetrant_data(**a)
        if fn == "get_partial_pressures":
            return get_partial_pressures(**a)
        if fn == "calculate_activity_coefficients":
            return calculate_activity_coefficients(**a)
        if fn == "to_molar":
            return a["composition"].to_molar(a["mixture"])
        if fn == "to_weight":
            return a["composition"].to_weight(a["mixture"])
        if fn == "permeance_convert":
            return a["permeance"].convert(to_units=a["to_units"], component=a.get("component"))
        if fn == "permeance_add":
            return a["left"] + a["right"]
        if fn == "component_method":
            return getattr(a["component"], op["method"])(*a.get("params", []))
        if fn == "program":
            return a["program"].program(a["time"])
        if fn == "measurements_from":
            return getattr(Measurements, op["method"])(a["source"])
        if fn == "fit":
            return fit(**a)
        if fn == "find_best_fit":
            return find_best_fit(**a)
        if fn == "fit_many":
            # the same fit repeated op["count"] times in this interpreter: every result must be the first one
            first, distinct, changed_at, changed = None, 0, None, None
            seen_ = set()
            for i in range(int(op["count"])):
                f = fit(**a)
                key = (f.n, f.m, float(f.alpha).hex(), tuple(float(v).hex() for v in f.a), tuple(float(v).hex() for v in f.b))
                if first is None:
                    first = f
                if key not in seen_:
                    seen_.add(key)
                    if len(seen_) == 2:
                        changed_at, changed = i, build.view_fn(f)
            return {"first": first, "distinct": len(seen_), "changed_at": changed_at, "changed": changed, "count": int(op["count"])}
        if fn == "fit_vle":
            return fit_vle(**a)
        if fn == "fn_call":
            f = a["function"]
            if op.get("as_array") == "x":
                xs = numpy.array([float(g[0]) for g in op["grid_args"]])
                t0 = op["grid_args"][0][1]
                vals = f(xs, t0)
                return {"array": list(vals), "points": [[float(x), t0] for x in xs]}
            if op.get("as_array") == "t":
                ts = numpy.array([float(g[1]) for g in op["grid_args"]])
                x0 = op["grid_args"][0][0]
                vals = f(x0, ts)
                return {"array": list(vals), "points": [[x0, float(t)] for t in ts]}
            return [f(x, t) for (x, t) in op["grid_args"]]
        if fn == "fn_mul":
            f = a["function"]
            g = f * a["constant"]
            out = {"product": g}
            if op.get("grid"):
                out["values"] = [[_fval(f(x, t)), _fval(g(x, t))] for (x, t) in op["grid"]]
            return out
        if fn == "copy_object":
            import copy as _copy
            import pickle as _pickle
            how = op["how"]
            if how == "deepcopy":
                return _copy.deepcopy(a["obj"])
            if how == "copy":
                return _copy.copy(a["obj"])
            return _pickle.loads(_pickle.dumps(a["obj"]))
        if fn == "new_mixture":
            n_ = a["nrtl"]
            mx = Mixture(name=a["name"], first_component=a["first_component"], second_component=a["second_component"],
                         nrtl_params=NRTLParameters(g12=n_["g12"], g21=n_["g21"], alpha12=n_["alpha12"]))
            return {"name": mx.name, "g12": mx.nrtl_params.g12}
        if fn == "load_membrane":
            if op.get("rel"):
                from pathlib import Path as _P
                return Membrane.load(_P(op["dir"]))
            return build.load_membrane(self.root, op["dir"])
        if fn == "fn_new_call":
            f = build.function(op["spec"])
            return [f(x, t) for (x, t) in op["grid_args"]]
        if fn == "fn_from_array":
            return PervaporationFunction.from_array(array=a["array"], n=a["n"], m=a["m"])
        if fn == "make_curve":
            return DiffusionCurve(**a)
        if fn == "curve_metric":
            return getattr(a["curve"], op["method"])
        if fn == "measurements_add":
            return a["left"] + a["right"]
        if fn == "pool_measurements":
            # what the library's own extractors do: accumulate into a fresh, empty object with +=
            acc = Measurements(data=[])
            for src in a["sources"]:
                acc += src
            return acc
        raise RuntimeError("unknown entry point %r" % (fn,))
