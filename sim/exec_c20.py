class Executor:
    def __init__(self, init):
        pass
    def describe(self):
        return {}
