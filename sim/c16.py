"""C16: fitting histories on shared measurement objects (purity, repeatability, best-of
selection, functional form).  Uses the call-history engine of C20 with a fitting-only
alphabet and history oracles evaluated over the recorded calls."""
import math

from . import hist
from . import worldgen as wg
from .common import derive, stream
from .hist import Violation, ref

PROP = "C16"
EPS = 2.220446049250313e-16
NAMES = {"fresh": "C16.repeat", "snapshot": "C16.data", "repeat": "C16.repeat"}


def gen_opts(tier):
    return {"vle_full_every": 10 if tier == "quick" else 6}


def gen_plan(verif_seed, run, vle_full_every=10):
    rs = derive(PROP, verif_seed, run)
    w, o, c = stream(rs, "world"), stream(rs, "ops"), stream(rs, "clock")
    spec = hist.gen_world(w, n_membranes=(2, 3))
    # measurement pool: 3..6 shared objects (3..40 points, 1..4 temperatures)
    meas = []
    for ci in range(len(spec["curve_sets"])):
        if len(meas) < 2 and w.random() < 0.6:
            meas.append({"from_set": ci, "component": w.choice([0, 1])})
    while len(meas) < 3 or (len(meas) < 6 and w.random() < 0.5):
        meas.append({"points": hist.synth_points(w, endpoints=0.5)})
    if w.random() < 0.04:
        meas.append({"points": hist.synth_points(w, npts=w.randint(101, 130), ntemps=w.randint(2, 4))})
    for ms in list(meas):
        pts = ms.get("points")
        if pts and len({tuple(q) for q in pts}) < len(pts) and w.random() < 0.6:
            # the set holds a measurement several times: once as ONE object entered several times, once as equal but
            # distinct objects - equal data either way
            ms["alias_dups"] = True
            meas.append({"points": [list(q) for q in pts]})
    w.shuffle(meas)
    spec["measurements"] = meas
    full_vle = (run % vle_full_every) == 0
    if full_vle:
        spec["vle"] = [hist.VLE_FILES[(run // vle_full_every) % len(hist.VLE_FILES)]]
    else:
        spec["vle"] = sorted(set(w.sample(hist.VLE_FILES, w.randint(1, 2))))
    M = hist.Meta(spec)
    twins = {}
    for i, mi in enumerate(meas):
        for j, mj in enumerate(meas):
            if i != j and mi.get("points") is not None and mi.get("points") == mj.get("points"):
                twins[i] = j
    n = o.randint(3, 10)
    ops = []
    best_budget = 2
    tries = 0
    while len(ops) < n and tries < 80:
        tries += 1
        r = o.random()
        prev_fits = [p for p in ops if p["fn"] in ("fit", "find_best_fit")]
        if ops and r < 0.25:
            op = {k: v for k, v in o.choice(ops).items() if k not in ("id", "clock")}
            if op["fn"] in ("fit", "find_best_fit") and op["args"]["data"]["$"][1] in twins and o.random() < 0.6:
                # the same call on the EQUAL data set held by other objects
                op["args"] = dict(op["args"], data=ref("measurements", twins[op["args"]["data"]["$"][1]]))
        elif prev_fits and r < 0.40:
            # another fit on the data object of an earlier (preferably include_zero) call
            zero = [p for p in prev_fits if p["args"].get("include_zero")]
            src = o.choice(zero or prev_fits)
            op = hist.g_fit(o, M)
            op["args"]["data"] = src["args"]["data"]
        elif r < 0.78:
            op = hist.g_fit(o, M)
        elif r < 0.84:
            op = hist.g_fit_vle(o, M, hist.VLE_ALGS if o.random() < 0.3 else None)
        elif r < 0.90:
            op = hist.g_fn_op(o, M)
        elif r < 0.95:
            # the non-ideal models fit internally (find_best_fit on the data of a curve set) and
            # post-process the fitted functions: fits before and after must not notice
            op = hist.g_nonideal_process(o, M) if o.random() < 0.6 else hist.g_nonideal_curve(o, M)
            if op is not None and op["args"].get("number_of_steps", 0) > 3:
                op["args"]["number_of_steps"] = 3
        else:
            q = o.random()
            if q < 0.4:
                op = hist.g_measurements_from(o, M)
            elif q < 0.7:
                op = hist.g_pool_measurements(o, M)
            else:
                op = {"fn": "measurements_add", "args": {"left": ref("measurements", o.randrange(len(meas))), "right": ref("measurements", o.randrange(len(meas)))}}
        if op is None:
            continue
        if op["fn"] in ("fit", "find_best_fit"):
            k = op["args"]["data"]["$"][1]
            op["loss_on"] = k
            if "grid" not in op:          # a repeated call keeps its grid: it is the *same* call
                op["grid"] = hist.grid(o, 4)
            op.pop("check_best", None)
            a = op["args"]
            if op["fn"] == "find_best_fit" and "n" in a and "m" in a and hist.iv(a.get("component_index", 0)) in (0, 1) \
                    and (hist.iv(a["n"]) + 1) * (hist.iv(a["m"]) + 1) <= 12 and best_budget > 0:
                op["check_best"] = True
                best_budget -= 1
        op["id"] = len(ops)
        op["clock"] = {"gap": c.choice([1, 1000, c.randint(1, 10**11)]), "step": c.choice([0, 1, 1000])}
        ops.append(op)
    if full_vle:
        op = {"fn": "fit_vle", "args": {"data": ref("vle", 0), "method": None}, "objective_on": 0, "check_best_vle": True,
              "id": len(ops), "clock": {"gap": 1000, "step": 1}}
        ops.insert(o.randint(0, len(ops)), op)
    # evaluation / scaling / construction of permeance functions cost nothing next to a fit: a few more of them between the fits
    for _ in range(o.randint(2, 6)):
        op = hist.g_fn_op(o, M)
        op["clock"] = {"gap": c.choice([1, 1000, c.randint(1, 10**11)]), "step": c.choice([0, 1, 1000])}
        ops.insert(o.randint(0, len(ops)), op)
    if o.random() < 0.07:
        # a long series of identical direct fits on one small data object (sequences of repeated fit calls on the same data object)
        small = [i for i, ms in enumerate(meas) if ms.get("points") and len(ms["points"]) <= 10]
        if small:
            k = o.choice(small)
            nt = len({q[1] for q in meas[k]["points"]})
            op = {"fn": "fit_many", "count": 400 if o.random() < 0.5 else o.choice([12, 60]),
                  "args": {"data": ref("measurements", k), "n": o.choice([1, 2]), "m": 1 if nt > 1 else 0},
                  "clock": {"gap": 1000, "step": 1}}
            if o.random() < 0.3:
                op["args"]["include_zero"] = True
            ops.insert(o.randint(0, len(ops)), op)
    for i, p in enumerate(ops):
        p["id"] = i
    return {"prop": PROP, "verif_seed": verif_seed, "run": run, "run_seed": rs, "budget": 5000, "world": spec, "ops": ops,
            "new_interpreter_ref": run % 20 == 7}


def _tol(mag):
    return 1e-12 + 16 * EPS * mag


def _close(a, b, tol):
    if isinstance(a, str) or isinstance(b, str):
        return a == b
    if a != a and b != b:
        return True
    if a == b:
        return True
    big, tiny = 1e300, 1e-290
    if (abs(a) > big and abs(b) > big and (a > 0) == (b > 0)) or (abs(a) < tiny and abs(b) < tiny):
        return True       # at the overflow / underflow edge exp() implementations legitimately differ (inf vs 1.7e308, 0 vs denormal)
    if math.isinf(a) or math.isinf(b) or a != a or b != b:
        return False
    return abs(a - b) <= tol * max(abs(a), abs(b))


def _fn_eval(f, x, t):
    terms = [float(f["a"][i]) * (x ** (i + 1)) for i in range(len(f["a"]))]
    terms += [-float(f["b"][i]) * (x ** i) / t for i in range(len(f["b"]))]
    e = math.fsum(terms)
    try:
        v = float(f["alpha"]) * math.exp(e)
    except OverflowError:
        v = math.copysign(math.inf, float(f["alpha"]))
    return v, math.fsum(abs(z) for z in terms)


def extra_oracles(op, rep, refrep, fresh, st, plan, now):
    for k in ("form_checks", "mul_checks", "best_checks", "best_single_fits", "vle_best_checks", "vle_single_methods"):
        st.setdefault(k, 0)
    rec = {}
    fn = op["fn"]
    d = rep.get("derived") or {}
    # ---- functional form of fitted functions
    if rep["kind"] == "ok" and d.get("grid"):
        for x, t, lib, ind, mag in d["grid"]:
            st["form_checks"] += 1
            if not _close(lib, ind, _tol(mag)):
                raise Violation("C16.form", op, {"x": x, "T": t, "library": lib, "independent": ind, "function": d.get("fn"),
                                                 "relative_tolerance": _tol(mag)})
    # ---- functional form of the functions a non-ideal model returns (after its in-place post-processing)
    if rep["kind"] == "ok" and d.get("fits_eval"):
        for fi, how, x, t, lib, ind, mag in d["fits_eval"]:
            st["form_checks"] += 1
            if not _close(lib, ind, _tol(mag)):
                raise Violation("C16.form", op, {"note": "permeance_fits[%d] of the returned model, %s evaluation" % (fi, how), "x": x, "T": t,
                                                 "library": lib, "expected": ind, "relative_tolerance": _tol(mag)})
    # ---- functional form of shared functions
    if fn == "fn_call" and rep["kind"] == "ok":
        f = plan["world"]["functions"][op["args"]["function"]["$"][1]]
        if op.get("as_array"):
            tree = rep["tree"]
            dd = dict((kv[0]["s"], kv[1]) for kv in tree["d"]) if isinstance(tree, dict) and "d" in tree else {}
            vals = _plain_list(dd.get("array", []))
            pts = _plain_list(dd.get("points", []))
        else:
            vals = _plain_list(rep["tree"])
            pts = op["grid_args"]
        for (x, t), lib in zip(pts, vals):
            ind, mag = _fn_eval(f, x, t)
            st["form_checks"] += 1
            if lib is None or not _close(lib, ind, _tol(mag)):
                raise Violation("C16.form", op, {"x": x, "T": t, "library": lib, "independent": ind, "function": f, "relative_tolerance": _tol(mag)})
    if fn == "fn_mul" and rep["kind"] == "ok":
        c = op["args"]["constant"]
        f = plan["world"]["functions"][op["args"]["function"]["$"][1]]
        tree = rep["tree"]
        vals = _plain_list(tree["d"][1][1]) if isinstance(tree, dict) and "d" in tree and len(tree["d"]) > 1 else []
        for (x, t), pair in zip(op.get("grid") or [], vals):
            _, mag = _fn_eval(f, x, t)
            cs = c
            if isinstance(c, dict):
                cs = c["$array"] if "$array" in c else (c["$npint"] if "$npint" in c else c["$npfloat"])
            if isinstance(cs, list):
                # an array constant: the product is vector valued, one value per element of the constant
                got = pair[1] if pair is not None else None
                fv = pair[0] if pair is not None else None
                if isinstance(fv, float) and (abs(fv) > 1e290 or fv != fv):
                    continue
                st["mul_checks"] += 1
                ok = isinstance(fv, float) and isinstance(got, list) and len(got) == len(cs) and all(
                    isinstance(g_, float) and _close(g_, ck * fv, _tol(mag)) for g_, ck in zip(got, cs))
                if not ok:
                    raise Violation("C16.form", op, {"note": "(f*c)(x,T) != c*f(x,T) element by element for an array constant c", "x": x, "T": t,
                                                     "f": fv, "f_times_c": got, "c": cs})
                continue
            if pair is not None and all(isinstance(v, float) for v in pair) and (
                    max(abs(pair[0]), abs(pair[1])) > 1e290 or pair[0] != pair[0] or pair[1] != pair[1]):
                continue      # f or f*c left the finite range: (alpha*c)*exp(e) and c*(alpha*exp(e)) overflow at different points
            st["mul_checks"] += 1
            if pair is None or not all(isinstance(v, float) for v in pair) or not _close(pair[1], cs * pair[0], _tol(mag)):
                raise Violation("C16.form", op, {"note": "(f*c)(x,T) != c*f(x,T)", "x": x, "T": t, "f": pair and pair[0], "f_times_c": pair and pair[1], "c": cs})
    if fn == "fit_many" and rep["kind"] == "ok":
        fm = d.get("fit_many") or {}
        st["fit_many_fits"] = st.get("fit_many_fits", 0) + int(fm.get("count") or 0)
        if fm.get("distinct") != 1:
            raise Violation("C16.repeat", op, {"note": "the same fit repeated in one interpreter gave different coefficients",
                                               "first": fm.get("first"), "changed_at_repetition": fm.get("changed_at"), "then": fm.get("changed"),
                                               "repetitions": fm.get("count")})
    # ---- best-of selection (permeance functions)
    if op.get("check_best") and rep["kind"] == "ok" and isinstance(d.get("loss"), float):
        a = op["args"]
        best_loss = d["loss"]
        best_err = d.get("loss_err") or 0.0
        worst = None
        for nn in range(hist.iv(a["n"]) + 1):
            for mm in range(hist.iv(a["m"]) + 1):
                single = {"fn": "fit", "args": dict(a, n=nn, m=mm), "loss_on": op["loss_on"]}
                r1 = fresh.op(single, {"start": now + hist.DECADE_US, "step": 1}, fresh=True)
                st["best_single_fits"] += 1
                if r1["kind"] != "ok":
                    continue
                l1 = (r1.get("derived") or {}).get("loss")
                if not isinstance(l1, float) or l1 != l1 or math.isinf(l1):
                    continue
                e1 = (r1.get("derived") or {}).get("loss_err") or 0.0
                # two candidates whose losses differ by less than the evaluation uncertainty of the losses are
                # legitimately ranked either way by the library's own (numpy) arithmetic: 2x for the library's side
                slack = 1e-9 * l1 + 2.0 * (best_err + e1)
                if not (best_loss <= l1 + slack):
                    worst = {"n": nn, "m": mm, "single_fit_loss": l1, "best_fit_loss": best_loss, "best_fit_orders": [d["fn"]["n"], d["fn"]["m"]],
                             "evaluation_uncertainty": [best_err, e1]}
                    break
            if worst:
                break
        st["best_checks"] += 1
        if worst:
            raise Violation("C16.best", op, worst)
        rec["best"] = "ok"
    # ---- best-of selection (VLE)
    if op.get("check_best_vle") and rep["kind"] == "ok" and isinstance(d.get("objective"), float):
        best = d["objective"]
        for alg in hist.VLE_ALGS:
            single = {"fn": "fit_vle", "args": dict(op["args"], method=alg), "objective_on": op["objective_on"]}
            r1 = fresh.op(single, {"start": now + hist.DECADE_US, "step": 1}, fresh=True)
            st["vle_single_methods"] += 1
            if r1["kind"] != "ok":
                continue
            o1 = (r1.get("derived") or {}).get("objective")
            if not isinstance(o1, float) or o1 != o1:
                continue
            if not (best <= (1 + 1e-9) * o1):
                raise Violation("C16.best", op, {"method": alg, "single_method_objective": o1, "best_of_objective": best})
        st["vle_best_checks"] += 1
        rec["best_vle"] = "ok"
    return rec


def _plain_list(tree):
    """canonical list of floats ({"f": hex}) -> python floats (nested lists allowed)."""
    import struct

    if isinstance(tree, list):
        return [_plain_list(x) for x in tree]
    if isinstance(tree, dict) and "f" in tree:
        if tree["f"] == "nan":
            return float("nan")
        return struct.unpack(">d", bytes.fromhex(tree["f"]))[0]
    if isinstance(tree, (int, float)):
        return float(tree)
    return None


def execute(ctx, plan, stats=None):
    return hist.execute(ctx, plan, stats, extra_oracles, PROP, NAMES)


signature = hist.signature
summarize = hist.summarize


def simplifiers(plan):
    from .c20 import simplifiers as s20

    fs = s20(plan)
    for op in plan["ops"]:
        oid = op["id"]

        def lower_orders(p, oid=oid):
            for o_ in p["ops"]:
                if o_["id"] == oid and o_["fn"] in ("fit", "find_best_fit"):
                    a = o_["args"]
                    for k in ("n", "m"):
                        if isinstance(a.get(k), dict):
                            a[k] = a[k]["$npint"]          # plain int first
                            return p
                        if a.get(k, 0) and a[k] > 0:
                            a[k] -= 1
                            return p
            return None

        fs += [lower_orders, lower_orders]
    return fs


SHRINK_EXECS = 120
RULE = ("one evaluation = one fitting history: 3-6 shared Measurements objects (from the repository's curve sets via the library's own "
        "data and synthetic sets of 3-40 points at 1-4 temperatures), built-in VLE data sets and shared PervaporationFunctions; 3-10 calls "
        "of fit / find_best_fit / fit_vle / function evaluation / scaling / extractors, biased to repeating earlier calls and to fitting "
        "again on an object that was just fitted with zero points; each call is also executed first on a pristine world in another "
        "interpreter (bit-for-bit comparison); the world is deep-snapshotted after every call; best-of and functional-form relations "
        "are evaluated over the recorded calls. Non-trivial = at least two calls; distinct = distinct (entry point, outcome class) sequences.")
REAL = ["pyvaporation.optimizer, pyvaporation.mixtures.uniquac_fitting and everything they call (tree under test)", "scipy.optimize (all 9 methods)", "numpy"]
STUBS = ["datetime.now (scripted)", "PYTHONHASHSEED (chosen per zygote interpreter)", "os.urandom/random (seeded)", "BLAS threads (pinned to 1)"]
ASSUMPTIONS = [
    "the squared error of a permeance function is evaluated by the harness' own formula alpha*exp(fsum(...)) on the pristine data",
    "the VLE objective is evaluated by the library's own objective() on the pristine data (no independent UNIQUAC implementation)",
    "best-of is checked for find_best_fit calls with both maximum orders given explicitly and (n+1)(m+1) <= 12",
    "a forked child of a pristine zygote stands for a fresh interpreter",
    "sampling, not enumeration: a clean batch is evidence, not proof",
]
