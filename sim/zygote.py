"""Zygote: a fresh interpreter (recorded PYTHONHASHSEED) that imports the library from the
tree under test, installs the seams, makes NO modelling call and then forks one session at a
time on request.  argv: <socket fd> <stderr log path or ->"""
import os
import sys


def main():
    import socket

    fd = int(sys.argv[1])
    errlog = sys.argv[2] if len(sys.argv) > 2 else "-"
    sock = socket.socket(fileno=fd)
    devnull = os.open(os.devnull, os.O_RDWR)
    os.dup2(devnull, 0)
    os.dup2(devnull, 1)  # the library prints; never a protocol channel
    if errlog != "-":
        efd = os.open(errlog, os.O_WRONLY | os.O_CREAT | os.O_APPEND, 0o644)
        os.dup2(efd, 2)
    else:
        os.dup2(devnull, 2)

    here = os.path.dirname(os.path.dirname(os.path.abspath(__file__)))
    if here not in sys.path:
        sys.path.insert(0, here)

    import warnings

    warnings.simplefilter("ignore")
    import gc

    from sim.common import recv_msg, send_msg

    import pyvaporation  # noqa: F401  (from PYTHONPATH = tree under test)
    import pyvaporation.plotting  # noqa: F401

    from sim import seams, session

    seams.install_storage()
    patched, dshim, tshim = seams.install_clock()
    seams.install_budget()
    session.preload()

    from pyvaporation import Components, Mixtures

    mw = {}
    for k in sorted(vars(Components)):
        v = vars(Components)[k]
        if hasattr(v, "molecular_weight"):
            mw[k] = [v.name, float(v.molecular_weight)]
    mixes = {}
    for k in sorted(vars(Mixtures)):
        v = vars(Mixtures)[k]
        if hasattr(v, "first_component"):
            mixes[k] = [
                v.name,
                float(v.first_component.molecular_weight),
                float(v.second_component.molecular_weight),
            ]
    gc.collect()
    gc.freeze()
    send_msg(
        sock,
        {
            "ready": os.getpid(),
            "hashseed": os.environ.get("PYTHONHASHSEED"),
            "repo": os.path.dirname(os.path.dirname(pyvaporation.__file__)),
            "clock_patched": patched,
            "components": mw,
            "mixtures": mixes,
            "python": sys.version.split()[0],
        },
    )
    while True:
        try:
            msg = recv_msg(sock)
        except Exception:
            os._exit(0)
        cmd = msg.get("cmd")
        if cmd == "quit":
            os._exit(0)
        if cmd == "fork":
            pid = os.fork()
            if pid == 0:
                code = 0
                try:
                    seams.install_late_import_shims(dshim, tshim)
                    session.serve(sock, msg)
                except BaseException:
                    import traceback

                    traceback.print_exc()
                    code = 70
                finally:
                    seams._REAL["_exit"](code)
            _, status = os.waitpid(pid, 0)
            if os.WIFSIGNALED(status):
                st = -os.WTERMSIG(status)
            else:
                st = os.WEXITSTATUS(status)
            send_msg(sock, {"died": st, "pid": pid})
        else:
            send_msg(sock, {"error": "unknown cmd %r" % (cmd,)})


if __name__ == "__main__":
    main()
