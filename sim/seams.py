"""Seams the simulator owns inside a session process: clock, storage, listing order,
entropy, step budget.  Installed from outside the library (module attributes and
builtins); /repo contains no hook.

Imported only inside zygotes/sessions (it may import numpy lazily); never by lanes.
"""
import builtins
import datetime as _dt
import errno
import io
import os
import random
import sys
import types

_REAL = {
    "open": builtins.open,
    "os.open": os.open,
    "mkdir": os.mkdir,
    "listdir": os.listdir,
    "scandir": os.scandir,
    "stat": os.stat,
    "lstat": os.lstat,
    "rename": os.rename,
    "replace": os.replace,
    "unlink": os.unlink,
    "remove": os.remove,
    "rmdir": os.rmdir,
    "_exit": os._exit,
    "urandom": os.urandom,
}

EPOCH = _dt.datetime(1970, 1, 1)

ERRNOS = {
    "eio-open": errno.EIO,
    "eacces-open": errno.EACCES,
    "emfile-open": errno.EMFILE,
    "enospc-mkdir": errno.ENOSPC,
    "eio-mkdir": errno.EIO,
    "enospc-write": errno.ENOSPC,
}


class StepBudgetExceeded(BaseException):
    """Harness-private: the flux fixed-point loop exceeded the run's step budget."""


class OpTimeout(BaseException):
    """Harness-private: real wall-clock watchdog (harness error, never a verdict)."""


class Seams:
    def __init__(self):
        self.root = None          # absolute scratch root, no trailing slash
        self.on_die = None        # callable(events) -> None, invoked just before a simulated crash
        self.budget = 5000
        self.reset_op()
        self.clock_start = 1_700_000_000_000_000
        self.clock_step = 1
        self.clock_reads = 0
        self.clock_log = []
        self.listing = None       # random.Random or None (None: sorted order)
        self.entropy = random.Random(0)

    # ---- per-operation state -------------------------------------------------------
    def reset_op(self, fault=None):
        self.events = []
        self.call_no = 0
        self.n_open = 0
        self.n_mkdir = 0
        self.bytes_no = 0
        self.flux_calls = 0
        self.flux_calls_max = 0
        self.fault = dict(fault) if fault else None
        self.fault_fired = False

    def set_clock(self, start_us, step_us):
        self.clock_start = int(start_us)
        self.clock_step = int(step_us)
        self.clock_reads = 0
        self.clock_log = []

    def now(self):
        t = self.clock_start + self.clock_reads * self.clock_step
        self.clock_reads += 1
        self.clock_log.append(t)
        return EPOCH + _dt.timedelta(microseconds=t)

    def now_s(self):
        t = self.clock_start + self.clock_reads * self.clock_step
        self.clock_reads += 1
        self.clock_log.append(t)
        return t / 1e6

    # ---- storage -------------------------------------------------------------------
    def rel(self, path):
        root = self.root
        if root is None:
            return None
        try:
            p = os.fspath(path)
        except TypeError:
            return None
        if isinstance(p, bytes):
            p = p.decode("utf-8", "surrogateescape")
        if not p.startswith("/"):
            p = os.path.abspath(p)
        if p == root:
            return "."
        if p.startswith(root + "/"):
            return os.path.normpath(p[len(root) + 1:])
        return None

    def die(self):
        self.fault_fired = True
        if self.on_die is not None:
            try:
                self.on_die(self.events)
            except BaseException:
                pass
        _REAL["_exit"](137)

    def point(self, fn, rel, extra=None, klass=None, path=None):
        """Called before every intercepted call on a path under the scratch root."""
        idx = self.call_no
        self.call_no += 1
        self.events.append([fn, rel, extra])
        f = self.fault
        nth = None
        if klass == "open":
            nth = self.n_open
            self.n_open += 1
        elif klass == "mkdir":
            nth = self.n_mkdir
            self.n_mkdir += 1
        if not f or self.fault_fired:
            return
        kind = f["kind"]
        if kind == "crash" and f.get("at_call") == idx:
            self.events[-1].append("CRASH")
            self.die()
        if kind == "eio-call" and f.get("at_call") == idx:
            # whatever the k-th intercepted call is (also call kinds the code did not use when the
            # harness was written: rename, replace, unlink, listdir ...) fails with EIO
            self.fault_fired = True
            self.events[-1].append("eio-call")
            raise OSError(errno.EIO, os.strerror(errno.EIO), str(path if path is not None else rel))
        if klass == "open" and kind in ("eio-open", "eacces-open", "emfile-open") and f.get("nth") == nth:
            self.fault_fired = True
            self.events[-1].append(kind)
            raise OSError(ERRNOS[kind], os.strerror(ERRNOS[kind]), str(path))
        if klass == "mkdir" and kind in ("enospc-mkdir", "eio-mkdir") and f.get("nth") == nth:
            self.fault_fired = True
            self.events[-1].append(kind)
            raise OSError(ERRNOS[kind], os.strerror(ERRNOS[kind]), str(path))


S = Seams()


def _call(real, ev_index, *args, **kwargs):
    """Run the real call; tag the logged event when it fails (a failed call wrote nothing)."""
    try:
        return real(*args, **kwargs)
    except OSError as e:
        if ev_index is not None and ev_index < len(S.events):
            S.events[ev_index].append("ERR:%s" % (e.errno,))
        raise


class WriteProxy:
    """Byte-counting wrapper around a real file opened for writing."""

    def __init__(self, real, rel):
        object.__setattr__(self, "_real", real)
        object.__setattr__(self, "_rel", rel)
        object.__setattr__(self, "_count", 0)
        object.__setattr__(self, "_closed_logged", False)

    def write(self, data):
        n = len(data)
        f = S.fault
        if f and not S.fault_fired and "at_byte" in f:
            room = f["at_byte"] - S.bytes_no
            if room < n:
                part = data[: max(room, 0)]
                if len(part):
                    self._real.write(part)
                S.bytes_no += len(part)
                object.__setattr__(self, "_count", self._count + len(part))
                S.fault_fired = True
                S.events.append(["write-fault", self._rel, self._count, f["kind"]])
                if f["kind"] == "crash":
                    if f.get("flush"):
                        try:
                            self._real.flush()
                        except BaseException:
                            pass
                    S.die()
                try:
                    self._real.flush()
                except BaseException:
                    pass
                raise OSError(errno.ENOSPC, os.strerror(errno.ENOSPC), self._rel)
        r = self._real.write(data)
        S.bytes_no += n
        object.__setattr__(self, "_count", self._count + n)
        return r

    def writelines(self, lines):
        for line in lines:
            self.write(line)

    def close(self):
        if not self._closed_logged:
            object.__setattr__(self, "_closed_logged", True)
            S.events.append(["close", self._rel, self._count])
        return self._real.close()

    def __enter__(self):
        return self

    def __exit__(self, *exc):
        self.close()
        return False

    def __iter__(self):
        return iter(self._real)

    def __getattr__(self, name):
        return getattr(self._real, name)

    def __setattr__(self, name, value):
        setattr(self._real, name, value)


def _is_write_mode(mode):
    return any(c in mode for c in "wax+")


def _open(file, mode="r", *args, **kwargs):
    rel = S.rel(file) if not isinstance(file, int) else None
    if rel is None:
        return _REAL["open"](file, mode, *args, **kwargs)
    S.point("open", rel, mode, klass="open", path=file)
    real = _call(_REAL["open"], len(S.events) - 1, file, mode, *args, **kwargs)
    if _is_write_mode(mode):
        return WriteProxy(real, rel)
    return real


def _os_open(path, flags, *args, **kwargs):
    rel = S.rel(path)
    if rel is not None and kwargs.get("dir_fd") is None:
        S.point("os.open", rel, flags)
        return _call(_REAL["os.open"], len(S.events) - 1, path, flags, *args, **kwargs)
    return _REAL["os.open"](path, flags, *args, **kwargs)


def _mkdir(path, *args, **kwargs):
    rel = S.rel(path)
    if rel is not None and kwargs.get("dir_fd") is None:
        S.point("mkdir", rel, None, klass="mkdir", path=path)
        return _call(_REAL["mkdir"], len(S.events) - 1, path, *args, **kwargs)
    return _REAL["mkdir"](path, *args, **kwargs)


def _permute(items, key):
    items = sorted(items, key=key)
    if S.listing is not None:
        S.listing.shuffle(items)
    return items


def _listdir(path="."):
    rel = S.rel(path) if not isinstance(path, int) else None
    if rel is None:
        return _REAL["listdir"](path)
    S.point("listdir", rel)
    return _permute(_REAL["listdir"](path), key=lambda x: x)


class _ScandirResult:
    def __init__(self, entries):
        self._it = iter(entries)

    def __iter__(self):
        return self

    def __next__(self):
        return next(self._it)

    def close(self):
        pass

    def __enter__(self):
        return self

    def __exit__(self, *exc):
        return False


def _scandir(path="."):
    rel = S.rel(path) if not isinstance(path, int) else None
    if rel is None:
        return _REAL["scandir"](path)
    S.point("scandir", rel)
    with _REAL["scandir"](path) as it:
        entries = list(it)
    return _ScandirResult(_permute(entries, key=lambda e: e.name))


def _stat(path, *args, **kwargs):
    if not isinstance(path, int) and S.root is not None and kwargs.get("dir_fd") is None:
        rel = S.rel(path)
        if rel is not None:
            S.point("stat", rel)
    return _REAL["stat"](path, *args, **kwargs)


def _mk2(name):
    real = _REAL[name]

    def f(src, dst, *args, **kwargs):
        r1, r2 = S.rel(src), S.rel(dst)
        if (r1 is not None or r2 is not None) and not kwargs:
            S.point(name, r1, r2)
            return _call(real, len(S.events) - 1, src, dst, *args, **kwargs)
        return real(src, dst, *args, **kwargs)

    f.__name__ = name
    return f


def _mk1(name):
    real = _REAL[name]

    def f(path, *args, **kwargs):
        rel = S.rel(path)
        if rel is not None and kwargs.get("dir_fd") is None:
            S.point(name, rel)
            return _call(real, len(S.events) - 1, path, *args, **kwargs)
        return real(path, *args, **kwargs)

    f.__name__ = name
    return f


def install_storage():
    builtins.open = _open
    io.open = _open
    os.open = _os_open
    os.mkdir = _mkdir
    os.listdir = _listdir
    os.scandir = _scandir
    os.stat = _stat
    os.rename = _mk2("rename")
    os.replace = _mk2("replace")
    os.unlink = _mk1("unlink")
    os.remove = _mk1("remove")
    os.rmdir = _mk1("rmdir")


# ---- clock ------------------------------------------------------------------------------


class SimDateTime(_dt.datetime):
    @classmethod
    def now(cls, tz=None):
        t = S.now()
        if tz is not None:
            t = t.replace(tzinfo=_dt.timezone.utc).astimezone(tz)
        return t

    @classmethod
    def utcnow(cls):
        return S.now()

    @classmethod
    def today(cls):
        return S.now()


class SimDate(_dt.date):
    @classmethod
    def today(cls):
        return S.now().date()


def _datetime_shim():
    m = types.ModuleType("datetime")
    m.__dict__.update({k: v for k, v in vars(_dt).items() if not k.startswith("__")})
    m.datetime = SimDateTime
    m.date = SimDate
    return m


def _time_shim():
    import time as _t

    m = types.ModuleType("time")
    m.__dict__.update({k: v for k, v in vars(_t).items() if not k.startswith("__")})
    m.time = lambda: S.now_s()
    m.time_ns = lambda: int(S.now_s() * 1e9)
    m.monotonic = lambda: S.now_s()
    m.monotonic_ns = lambda: int(S.now_s() * 1e9)
    m.perf_counter = lambda: S.now_s()
    m.perf_counter_ns = lambda: int(S.now_s() * 1e9)
    m.sleep = lambda s: None
    real_local, real_gm, real_ctime, real_strf = _t.localtime, _t.gmtime, _t.ctime, _t.strftime
    m.localtime = lambda s=None: real_gm(S.now_s() if s is None else s)
    m.gmtime = lambda s=None: real_gm(S.now_s() if s is None else s)
    m.ctime = lambda s=None: real_ctime(S.now_s() if s is None else s)
    m.strftime = lambda fmt, t=None: real_strf(fmt, real_gm(S.now_s()) if t is None else t)
    return m


def install_clock(prefix="pyvaporation"):
    """Replace, in every already imported module of the library, an attribute `datetime`
    that is the class or the module, `date`, and `time` if it is the time module.  Also swap
    the entries of sys.modules so that a function-level `import datetime` / `import time`
    executed later inside a session lands on the simulated clock as well."""
    import time as _t

    dshim = _datetime_shim()
    tshim = _time_shim()
    patched = []
    for name in sorted(sys.modules):
        if not (name == prefix or name.startswith(prefix + ".")):
            continue
        mod = sys.modules[name]
        d = getattr(mod, "__dict__", None)
        if d is None:
            continue
        for attr in sorted(d):
            v = d[attr]
            if v is _dt.datetime:
                d[attr] = SimDateTime
                patched.append(name + "." + attr)
            elif v is _dt.date:
                d[attr] = SimDate
                patched.append(name + "." + attr)
            elif v is _dt:
                d[attr] = dshim
                patched.append(name + "." + attr)
            elif v is _t:
                d[attr] = tshim
                patched.append(name + "." + attr)
    return patched, dshim, tshim


def install_late_import_shims(dshim, tshim):
    """Inside a session only (after fork): later `import datetime` / `import time`
    statements resolve to the shims."""
    sys.modules["datetime"] = dshim
    sys.modules["time"] = tshim


def install_entropy(seed):
    import uuid

    S.entropy = random.Random(seed)
    random.seed(seed)
    try:
        import numpy

        numpy.random.seed(seed % (2**32))
    except Exception:
        pass
    os.urandom = lambda n: S.entropy.randbytes(n)
    uuid.uuid4 = lambda: uuid.UUID(int=S.entropy.getrandbits(128), version=4)
    uuid.uuid1 = lambda node=None, clock_seq=None: uuid.UUID(int=S.entropy.getrandbits(128), version=1)


def install_budget():
    from pyvaporation.pervaporation import Pervaporation

    inner = Pervaporation.get_partial_fluxes_from_permeate_composition
    outer = Pervaporation.calculate_partial_fluxes

    def counted(self, *a, **k):
        S.flux_calls += 1
        if S.flux_calls > S.flux_calls_max:
            S.flux_calls_max = S.flux_calls
        if S.flux_calls > S.budget:
            raise StepBudgetExceeded()
        return inner(self, *a, **k)

    def reset(self, *a, **k):
        S.flux_calls = 0
        return outer(self, *a, **k)

    counted.__wrapped__ = inner
    reset.__wrapped__ = outer
    counted.__name__ = inner.__name__
    reset.__name__ = outer.__name__
    counted.__doc__ = inner.__doc__
    reset.__doc__ = outer.__doc__
    Pervaporation.get_partial_fluxes_from_permeate_composition = counted
    Pervaporation.calculate_partial_fluxes = reset
