"""Pure-Python diff of canonical trees (usable by lanes)."""


def first_diff(a, b, path="$"):
    """First differing path between two canonical trees (None if equal)."""
    if type(a) is not type(b):
        return path, a, b
    if isinstance(a, dict):
        if set(a) != set(b):
            return path, sorted(a), sorted(b)
        if "o" in a or "c" in a:
            tag = "o" if "o" in a else "c"
            if a[tag] != b[tag]:
                return path + "<class>", a[tag], b[tag]
            va, vb = a["v"], b["v"]
            for k in sorted(set(va) | set(vb)):
                if k not in va or k not in vb:
                    return path + "." + k, va.get(k, "<absent>"), vb.get(k, "<absent>")
                r = first_diff(va[k], vb[k], path + "." + k)
                if r:
                    return r
            return None
        if "d" in a:
            if len(a["d"]) != len(b["d"]):
                return path + "<len>", len(a["d"]), len(b["d"])
            for i, (x, y) in enumerate(zip(a["d"], b["d"])):
                r = first_diff(x, y, path + "{%d}" % i)
                if r:
                    return r
            return None
        if a != b:
            return path, a, b
        return None
    if isinstance(a, list):
        if len(a) != len(b):
            return path + "<len>", len(a), len(b)
        for i, (x, y) in enumerate(zip(a, b)):
            r = first_diff(x, y, path + "[%d]" % i)
            if r:
                return r
        return None
    if a != b:
        return path, a, b
    return None


first_diff_plain = first_diff
