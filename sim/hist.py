"""Call-history engine shared by C20 and C16 (lane side, pure Python).

A plan = explicit world spec (shared object graph) + a history of modelling calls whose
arguments are references into that graph.  The history runs in one session (zygote A);
every call is also executed as the *first* call of a pristine copy of the same world in a
session of zygote B (other PYTHONHASHSEED, clock in another decade)."""
import copy
import math
import os
import shutil

from . import worldgen as wg
from .common import REPO, derive, digest, stream
from .lane import HarnessError

T0_US = 1_760_000_000_000_000
DECADE_US = 10 * 365 * 86400 * 1_000_000
VLE_FILES = ["EtOH_ETBE.csv", "H2O_AceticAcid.csv", "H2O_EtOH.csv", "H2O_MeOH.csv", "H2O_iPOH.csv", "MeOH_DMC.csv", "MeOH_MTBE.csv", "MeOH_Toluene.csv"]
VLE_SMALL = ["MeOH_DMC.csv", "EtOH_ETBE.csv", "H2O_AceticAcid.csv"]
VLE_ALGS = ["Nelder-Mead", "Powell", "CG", "BFGS", "L-BFGS-B", "TNC", "COBYLA", "SLSQP", "trust-constr"]


def ref(pool, i):
    return {"$": [pool, i]}


# =========================================================================================
# world generation
# =========================================================================================

def gen_custom_component(w, k):
    kind = w.choice(["antoine", "antoine", "frost"])
    if kind == "antoine":
        vp = {"a": wg.rnd(w, 6.8, 7.4, 5), "b": wg.rnd(w, -1900, -1400, 3), "c": wg.rnd(w, -50, -25, 3), "type": "antoine"}
    else:
        vp = {"a": wg.rnd(w, 15.0, 17.0, 4), "b": wg.rnd(w, -4200, -3400, 2), "c": wg.rnd(w, -150000, -50000, 0), "type": "frost"}
    uq = [wg.rnd(w, 0.9, 4.0, 4), wg.rnd(w, 1.0, 4.0, 4), w.choice([None, wg.rnd(w, 0.9, 3.0, 3)])] if w.random() < 0.7 else None
    return {"name": "X%d" % k, "mw": wg.rnd(w, 18, 120, 2), "vp": vp,
            "hc": [wg.rnd(w, 20, 120, 3), wg.rnd(w, -0.2, 0.3, 5), wg.rnd(w, -2e-4, 3e-4, 8), wg.rnd(w, -1e-6, 1e-6, 10)], "uq": uq}


def gen_world(w, n_membranes=(2, 4), small=False):
    spec = {}
    # membranes on disk
    picked = []
    if w.random() < 0.85:
        picked.append("RomakonPM_102")
    for nme in w.sample(sorted(wg.FIXTURES), w.randint(0, 2)):
        if nme not in picked:
            picked.append(nme)
    membranes = [wg.fixture_membrane(nme, "m%d" % i) for i, nme in enumerate(picked)]
    n_syn = max(1, w.randint(*n_membranes) - len(membranes))
    for _ in range(n_syn):
        wi = w.random() < 0.75
        # an ideal-only membrane (ideal_experiments.csv and an EMPTY diffusion_curve_sets directory) is a case the loader handles explicitly
        membranes.append(wg.synth_membrane(w, "m%d" % len(membranes), want_ideal=wi, n_sets=(0 if (wi and w.random() < 0.15) else None)))
    # custom components / mixtures
    comps = [gen_custom_component(w, k) for k in range(w.randint(1, 2))]
    mixes = []
    for k in range(w.randint(1, 2)):
        first = {"custom": w.randrange(len(comps))}
        second = {"builtin": w.choice(["H2O", "EtOH", "MeOH", "Toluene"])} if (len(comps) < 2 or w.random() < 0.5) else {"custom": (first["custom"] + 1) % len(comps)}
        if w.random() < 0.3:
            first, second = second, first
        has_uq = all(("builtin" in r) or comps[r["custom"]]["uq"] is not None for r in (first, second))
        style = w.choice(["nrtl", "nrtl", "both", "uniquac"]) if has_uq else "nrtl"
        nrtl = None
        if style in ("nrtl", "both"):
            nrtl = {"g12": wg.rnd(w, -6000, 6000, 2), "g21": wg.rnd(w, -6000, 6000, 2), "alpha12": wg.rnd(w, 0.2, 0.5, 3)}
            if w.random() < 0.5:
                nrtl["alpha21"] = wg.rnd(w, 0.2, 0.5, 3)
            if w.random() < 0.4:
                nrtl["a12"], nrtl["a21"] = wg.rnd(w, -2, 2, 4), wg.rnd(w, -2, 2, 4)
        uq = [wg.rnd(w, -80, 80, 4), wg.rnd(w, -80, 80, 4), wg.rnd(w, -1, 1, 5), wg.rnd(w, -1, 1, 5), w.choice([10, 10, 13])] if style in ("uniquac", "both") else None
        mixes.append({"name": "CM%d" % k, "first": first, "second": second, "nrtl": nrtl, "uniquac": uq})
    spec["custom_components"] = comps
    spec["custom_mixtures"] = mixes
    # a constructed membrane for a custom mixture
    if w.random() < 0.8:
        mx = w.randrange(len(mixes))
        exps = []
        two = w.random() < 0.6
        cu = w.choice([None, None, "GPU", "SI"])      # experiments built in code keep the units they were stated in
        for r in (mixes[mx]["first"], mixes[mx]["second"]):
            t0 = wg.rnd(w, 303.15, 333.15, 2)
            ea = w.choice([None, wg.rnd(w, 8000, 60000, 0)])
            mw_r = wg.MW.get(r.get("builtin"), None) if "builtin" in r else comps[r["custom"]]["mw"]
            for j in range(w.choice([2, 3]) if (two or ea is None) else 1):
                pk = wg.logu(w, 1e-4, 5e-2) * (1.0 + 0.35 * j)
                pv_ = [float("%.9g" % wg.kg_to_units(pk, cu, mw_r)), cu] if (cu and mw_r) else [pk, None]
                exps.append({"T": round(t0 + 12.0 * j, 2), "component": dict(r), "permeance": pv_, "ea": ea})
        if w.random() < 0.25:
            # replicate measurements of one experiment (same component, same temperature); a replicate below the
            # detection limit is recorded as 0
            tgt = w.choice(exps)
            below = w.random() < 0.6
            for _ in range(w.choice([1, 2])):
                e2 = copy.deepcopy(tgt)
                e2["permeance"][0] = 0.0 if below else float("%.9g" % (tgt["permeance"][0] * wg.rnd(w, 0.9, 1.1, 3)))
                exps.insert(w.randrange(len(exps) + 1), e2)
        if w.random() < 0.4:
            w.shuffle(exps)                            # not sorted by temperature / component
        membranes.append({"dir": "m%d" % len(membranes), "constructed": True, "experiments": exps, "mixture_ref": {"custom": mx},
                          "has_ideal": True, "ideal_temps": sorted({e["T"] for e in exps}), "sets": [], "t0": exps[0]["T"]})
    # twins: a second object that shares its *name* (and temperatures) with an earlier one but holds
    # different numbers - what a user gets by correcting a value and loading / building again.
    # Anything that identifies objects by name instead of by content or identity shows up here.
    if w.random() < 0.55:
        cands = [m for m in membranes if m.get("synthetic") and m.get("has_ideal") and len(m.get("ideal_temps", [])) >= 2]
        cons = [m for m in membranes if m.get("constructed")]
        if cands and (not cons or w.random() < 0.6):
            src = w.choice(cands)
            twin = copy.deepcopy(src)
            twin["dir"] = "twin/" + src["dir"]
            f1, f2 = wg.rnd(w, 1.3, 2.5, 3), wg.rnd(w, 0.3, 0.8, 3)
            t_lo = min(src["ideal_temps"])
            for row in twin["ideal_rows"]:
                # different slope and level: another activation energy and another permeance
                row[4] = float("%.9g" % (row[4] * (f1 if row[1] == t_lo else f2)))
            twin["twin_of"] = src["dir"]
            membranes.append(twin)
        elif cons:
            src = cons[0]
            twin = copy.deepcopy(src)
            for k, e in enumerate(twin["experiments"]):
                e["permeance"] = [float("%.9g" % (e["permeance"][0] * (2.1 if k % 2 == 0 else 0.45))), e["permeance"][1]]
                if e.get("ea") is not None:
                    e["ea"] = e["ea"] * 1.5
            twin["twin_of"] = src["dir"]
            membranes.append(twin)
    if len(mixes) >= 2 and w.random() < 0.4:
        mixes[1]["name"] = mixes[0]["name"]
    if w.random() < 0.35:
        # a user's own re-fitted mixture that carries the NAME and components of a built-in one
        bname = w.choice([m.get("mixture") for m in membranes if m.get("mixture")] or ["H2O_EtOH"])
        c1, c2 = wg.MIXTURES[bname]
        mixes.append({"name": bname, "first": {"builtin": c1}, "second": {"builtin": c2},
                      "nrtl": {"g12": wg.rnd(w, -6000, 6000, 2), "g21": wg.rnd(w, -6000, 6000, 2), "alpha12": wg.rnd(w, 0.2, 0.5, 3)},
                      "uniquac": None, "shadows_builtin": True})
    if len(comps) >= 2 and w.random() < 0.3:
        comps[1]["name"] = comps[0]["name"]
    spec["membranes"] = membranes
    # scalar-ish shared objects
    ncomp = w.randint(6, 10)
    comps_ = []
    for _ in range(ncomp):
        r = w.random()
        p = wg.rnd(w, 0.02, 0.98, 5) if r < 0.9 else w.choice([0.0, 1.0, 0.5, 1e-6])
        comps_.append([p, "molar" if w.random() < 0.3 else "weight"])
    spec["compositions"] = comps_
    perms = []
    for _ in range(w.randint(4, 8)):
        u = w.choice([None, None, "kg/(m2*h*kPa)", "GPU", "SI"])
        scale = {"GPU": (1e0, 1e4), "SI": (1e-10, 1e-6)}.get(u, (1e-6, 5e-2))
        perms.append([wg.logu(w, scale[0], scale[1], 7), u])
    spec["permeances"] = perms
    kg = [i for i, p in enumerate(perms) if p[1] in (None, "kg/(m2*h*kPa)")]
    tuples = []
    for _ in range(w.randint(2, 4)):
        if len(kg) >= 2 and w.random() < 0.7:
            tuples.append(w.sample(kg, 2))
        else:
            tuples.append([w.randrange(len(perms)), w.randrange(len(perms))])
    spec["perm_tuples"] = tuples
    progs = []
    for _ in range(w.randint(1, 3)):
        T = wg.rnd(w, 313.15, 353.15, 2)
        kind = w.choice(["polynomial", "polynomial", "exponential", "logarithmic"])
        if kind == "polynomial":
            co = [T, wg.rnd(w, -1.5, 1.5, 3)] + ([wg.rnd(w, -0.05, 0.05, 4)] if w.random() < 0.3 else [])
        elif kind == "exponential":
            co = [T, 0.0, wg.rnd(w, -0.004, 0.004, 5)]
        else:
            co = [T, 2.718281828459045, wg.rnd(w, -0.01, 0.02, 5)]
        progs.append({"coefficients": co, "type": kind, "array": w.random() < 0.35})     # coefficients straight from numpy (float64 array)
    spec["programs"] = progs
    conds = []
    for _ in range(w.randint(6, 10)):
        m = w.choice(membranes)
        temps = (m.get("ideal_temps") or []) + [t for s in m["sets"] for t in s["temps"]]
        T = round(w.choice(temps) + w.choice([0, 0, 0, wg.rnd(w, -4, 9, 2)]), 2)
        mode = w.choice(["none", "none", "none", "pp", "pp0", "pt", "both"])
        area = wg.rnd(w, 0.01, 0.5, 4)
        c = {"area": area, "T": T, "amount": round(max(0.3, area * w.choice([2, 20, 40, 80]) * w.uniform(0.5, 2)), 4),
             "comp_ref": w.randrange(ncomp), "pt": None, "pp": None, "program_ref": None}
        if mode in ("pt", "both"):
            c["pt"] = round(T - w.uniform(50, 85), 2)
        if mode in ("pp", "both"):
            c["pp"] = wg.rnd(w, 0.0, 0.3, 3)
        if mode == "pp0":
            c["pp"] = 0
        if w.random() < 0.3:
            c["program_ref"] = w.randrange(len(progs))
        conds.append(c)
    spec["conditions"] = conds
    ok_idx = [i for i, c in enumerate(comps_) if 0.01 < c[0] < 0.99]
    spec["comp_lists"] = [sorted(w.sample(ok_idx, min(len(ok_idx), w.randint(2, 5)))) for _ in range(w.randint(2, 3))]
    edge_idx = [i for i, c in enumerate(comps_) if c[0] in (0.0, 1.0)]
    if edge_idx and w.random() < 0.5:
        spec["comp_lists"].append(sorted(set(w.sample(ok_idx, min(len(ok_idx), 2)) + [w.choice(edge_idx)])))     # a list that includes a pure-component point
    # curve sets, curves, measurements
    csets = []
    for mi, m in enumerate(membranes):
        for s in m["sets"]:
            csets.append([mi, s["name"]])
    # a directly constructed DiffusionCurveSet whose curves keep MOLE-fraction compositions
    # (sets loaded from CSV are converted to mass fractions by from_frame)
    for ci in range(len(csets)):
        if w.random() < 0.45:
            csets.append({"molar_copy_of": ci})
            if w.random() < 0.3:
                csets[-1]["alias_first"] = True      # the SAME curve object entered twice in the set (a curve given double weight)
    n_loaded = len([c for c in csets if not isinstance(c, dict)])
    for ci in range(n_loaded):
        if w.random() < 0.3:
            csets.append({"replicate_of": ci, "factor": wg.rnd(w, 1.01, 1.2, 3)})
    spec["curve_sets"] = csets
    curves = []
    for ci in range(len(csets)):
        if w.random() < 0.6:
            curves.append({"from_set": ci, "index": 0})
    for _ in range(w.randint(1, 2)):
        with_nrtl = [k for k, mx in enumerate(mixes) if mx["nrtl"] is not None]
        mixref = {"builtin": w.choice(sorted(wg.MIXTURES))} if (w.random() < 0.7 or not with_nrtl) else {"custom": w.choice(with_nrtl)}
        idxs = w.choice(spec["comp_lists"])
        c = {"mixture": mixref, "T": wg.rnd(w, 303.15, 363.15, 2), "comp_refs": idxs, "comments": "shared hand-made"}
        if w.random() < 0.5:
            c["fluxes"] = [[wg.logu(w, 1e-4, 5), wg.logu(w, 1e-6, 1)] for _ in idxs]
            mode = w.choice(["none", "pt", "pp"])
            c["pt"] = round(c["T"] - 60, 2) if mode == "pt" else None
            c["pp"] = 0.05 if mode == "pp" else None
        else:
            c["perm_tuple_refs"] = [w.randrange(len(tuples)) for _ in idxs]
        curves.append(c)
    spec["curves"] = curves
    meas = []
    for ci in range(len(csets)):
        if len(meas) < 4 and w.random() < 0.7:
            meas.append({"from_set": ci, "component": w.choice([0, 1])})
    for _ in range(w.randint(1, 2)):
        meas.append({"points": synth_points(w)})
    if w.random() < 0.05:
        meas.append({"points": synth_points(w, npts=w.randint(101, 130), ntemps=w.randint(2, 4))})    # a large data set (rare: fits get slow)
    spec["measurements"] = meas
    spec["functions"] = [gen_function(w) for _ in range(w.randint(2, 4))]
    spec["vle"] = sorted(set(w.sample(VLE_SMALL, w.randint(1, 2))))
    pvs = []
    for mi, m in enumerate(membranes):
        mixref = m.get("mixture_ref") or {"builtin": m["mixture"]}
        pvs.append([mi, mixref])
    if w.random() < 0.5:
        mi = w.randrange(len(membranes))
        pvs.append([mi, {"builtin": w.choice(sorted(wg.MIXTURES))}])       # possibly mismatching mixture
    if w.random() < 0.4:
        pvs.append([w.randrange(len(membranes)), {"custom": w.randrange(len(mixes))}])
    for k, mx in enumerate(mixes):
        if mx.get("shadows_builtin"):
            for mi, m in enumerate(membranes):
                if m.get("mixture") == mx["name"]:
                    pvs.append([mi, {"custom": k}])       # the user's mixture used with a membrane whose curves carry the built-in one
                    break
    spec["pvs"] = pvs
    return spec


def gen_function(w):
    n, m = w.randint(0, 3), w.randint(0, 2)
    if w.random() < 0.12:
        # extreme coefficients: evaluation overflows/underflows for part of the grid (inf / 0 with a
        # numpy warning by default; a call that leaves numpy's error state changed would turn it into an exception)
        return {"n": 2, "m": 0, "alpha": wg.logu(w, 1e-3, 1e3, 6), "a": [round(w.uniform(600, 900), 3), round(w.uniform(-50, 50), 3)],
                "b": [round(w.uniform(-3000, 3000), 3)], "array": w.random() < 0.5}
    return {"n": n, "m": m, "alpha": wg.logu(w, 1e-12, 1e2, 8), "a": [round(w.uniform(-4, 4), 6) for _ in range(n)],
            "b": [round(w.uniform(-3000, 6000), 4) for _ in range(m + 1)], "array": w.random() < 0.5}


def decay_points(w):
    """Permeance of a component that vanishes towards the other pure component: steep exponential
    decay in x, moderate temperature dependence, values well above 1 (other units of p)."""
    A = wg.logu(w, 0.5, 40.0, 4)
    k = w.uniform(3.0, 9.0)
    temps = sorted({round(295.0 + 25.0 * j + w.uniform(0, 5), 1) for j in range(w.randint(2, 3))})
    xs = sorted({round(w.uniform(0.05, 0.8), 2) for _ in range(w.randint(3, 6))})
    pts = []
    for j, t in enumerate(temps):
        for x in xs:
            pts.append([x, t, float("%.4g" % (A * (1 + 0.18 * j) * math.exp(-k * x) * (1 + w.uniform(-0.03, 0.03))))])
    return pts


def synth_points(w, npts=None, ntemps=None, endpoints=0.35):
    if npts is None and w.random() < 0.15:
        return decay_points(w)
    pts = _synth_points(w, npts, ntemps, endpoints)
    if w.random() < 0.12:
        k = w.choice([1e-9, 1e-7, 1e-4, 1e3])     # the same curve in other units of p (SI permeances are ~1e-9)
        pts = [[x, t, float("%.9g" % (p * k))] for x, t, p in pts]
    return pts


def _synth_points(w, npts=None, ntemps=None, endpoints=0.35):
    """Measurements generated from a ground truth alpha*exp(sum a x^(i+1) - sum b x^i / T) with noise."""
    ntemps = ntemps or w.randint(1, 4)
    npts = npts or (w.randint(3, 5) if w.random() < 0.25 else w.randint(3, 40))       # the small end of the range is where order heuristics bite
    n, m = w.randint(0, 2), (w.randint(0, 1) if ntemps > 1 else 0)
    alpha = wg.logu(w, 1e-4, 1.0, 6)
    steep = w.random() < 0.2          # strong composition dependence: permeances span orders of magnitude
    a = [w.uniform(-10, 10) if steep else w.uniform(-3, 3) for _ in range(n)]
    b = [w.uniform(1500, 4500)] + [w.uniform(-800, 800) for _ in range(m)]
    temps = sorted({round(303.15 + 12.0 * j + w.uniform(0, 6), 2) for j in range(ntemps)})
    if w.random() < 0.2:
        temps = sorted({int(t) for t in temps})           # temperatures typed as integers (e.g. read from a CSV column of whole numbers)
    noise = w.choice([0.0, 0.01, 0.05])
    pts = []
    ragged = w.random() < 0.3 and len(temps) > 1
    wts = [w.choice([1, 1, 2, 6]) for _ in temps]
    for k in range(npts):
        t = temps[k % len(temps)] if (not ragged or k < len(temps)) else w.choices(temps, wts)[0]     # ragged: isotherms of very different sizes
        x = round(w.uniform(0.02, 0.95), 5)
        e = sum(a[i] * x ** (i + 1) for i in range(n)) - sum(b[i] * x ** i for i in range(len(b))) / t
        p = alpha * math.exp(e + b[0] / 330.0) * (1 + w.uniform(-noise, noise))
        p = min(max(p, 1e-6), 1.0)
        pts.append([x, t, float("%.9g" % p)])
    if w.random() < 0.25 and len(pts) >= 3:
        # one measurement logged several times (exact duplicates, unequal multiplicities)
        src = pts[w.randrange(len(pts))]
        for _ in range(w.randint(1, 5)):
            pts.insert(w.randrange(len(pts) + 1), list(src))
    if w.random() < endpoints:
        # measurements at the pure-component ends are legal data too
        for k in range(min(len(pts), w.randint(1, 3))):
            pts[w.randrange(len(pts))][0] = w.choice([0.0, 1.0])
    return pts


# =========================================================================================
# world meta used by the op generators
# =========================================================================================

class Meta:
    def __init__(self, spec):
        self.spec = spec
        self.membranes = spec["membranes"]
        self.pvs = spec["pvs"]
        self.csets = spec["curve_sets"]

    def base(self, ci):
        c = self.csets[ci]
        while isinstance(c, dict):
            c = self.csets[c["molar_copy_of"] if "molar_copy_of" in c else c["replicate_of"]]
        return c

    def pv_info(self, i):
        mi, mixref = self.pvs[i]
        m = self.membranes[mi]
        own = m.get("mixture_ref") or {"builtin": m.get("mixture")}
        shadow = "custom" in mixref and self.spec["custom_mixtures"][mixref["custom"]].get("shadows_builtin") and \
            self.spec["custom_mixtures"][mixref["custom"]]["name"] == m.get("mixture")
        return {"m": m, "mi": mi, "mixref": mixref, "match": own == mixref or bool(shadow), "has_ideal": m.get("has_ideal", False),
                "sets": [ci for ci in range(len(self.csets)) if self.base(ci)[0] == mi]}

    def set_meta(self, ci):
        mi, name = self.base(ci)
        for s in self.membranes[mi]["sets"]:
            if s["name"] == name:
                c = self.csets[ci]
                if isinstance(c, dict) and "replicate_of" in c:
                    s = dict(s)
                    s["n_curves"], s["temps"] = 2, [s["temps"][0]]      # two curves, one temperature
                return s
        raise KeyError(name)

    def temps(self, m):
        return (m.get("ideal_temps") or []) + [t for s in m["sets"] for t in s["temps"]]


def pick_T(o, m, meta, exact=0.3):
    temps = meta.temps(m)
    if o.random() < exact:
        return o.choice(temps)
    return round(o.choice(temps) + o.uniform(-4, 9), 2)


def permeate_kw(o, T, calc="NRTL", both=0.08):
    r = o.random()
    if r < both:
        return {"permeate_temperature": round(T - 60, 2), "permeate_pressure": 0.1}     # contradictory: must raise
    if r < 0.55:
        return {}
    if r < 0.8:
        if o.random() < 0.25:
            return {"permeate_pressure": wg.rnd(o, 0.5, 6.0, 2)}       # a poor vacuum: small driving force, slow fixed-point convergence (or no flux at all)
        return {"permeate_pressure": o.choice([0, 0.05, 0.2, wg.rnd(o, 0, 0.4, 3)])}
    if calc == "UNIQUAC" and o.random() < 0.7:
        return {}
    if o.random() < 0.25:
        return {"permeate_temperature": round(T - o.uniform(15, 50), 2)}      # a warm condenser
    return {"permeate_temperature": round(T - o.uniform(50, 85), 2)}


def calc_kw(o, p=0.2):
    return {"calculation_type": "UNIQUAC"} if o.random() < p else {}


def orders_kw(o, multi, n_points):
    kw = {}
    if o.random() < 0.7 or n_points > 9:
        kw["n_first"] = o.choice([0, 1, 1, 2])
        kw["n_second"] = o.choice([0, 1, 1])
        if multi:
            kw["m_first"] = o.choice([0, 0, 1])
            kw["m_second"] = o.choice([0, 0, 1])
    if o.random() < 0.3:
        kw["include_zero"] = True
    return kw


# ---- op generators: each returns an op dict or None ----------------------------------------

def g_flux_from_permeate(o, M):
    i = o.randrange(len(M.pvs))
    info = M.pv_info(i)
    T = pick_T(o, info["m"], M)
    nperm, ncomp = len(M.spec["permeances"]), len(M.spec["compositions"])
    calc = calc_kw(o)
    a = {"pv": ref("pvs", i), "first_component_permeance": ref("permeances", o.randrange(nperm)),
         "second_component_permeance": ref("permeances", o.randrange(nperm)),
         "permeate_composition": ref("compositions", o.randrange(ncomp)), "feed_composition": ref("compositions", o.randrange(ncomp)),
         "feed_temperature": T}
    a.update(permeate_kw(o, T, calc.get("calculation_type", "NRTL")))
    a.update(calc)
    return {"fn": "flux_from_permeate", "args": a}


def _flux_args(o, M, need_ideal_p=0.8):
    cands = [i for i in range(len(M.pvs)) if M.pv_info(i)["has_ideal"] and M.pv_info(i)["match"]]
    if cands and o.random() < need_ideal_p:
        i = o.choice(cands)
    else:
        i = o.randrange(len(M.pvs))
    info = M.pv_info(i)
    T = pick_T(o, info["m"], M)
    calc = calc_kw(o)
    a = {"pv": ref("pvs", i), "feed_temperature": T, "composition": ref("compositions", o.randrange(len(M.spec["compositions"])))}
    a.update(permeate_kw(o, T, calc.get("calculation_type", "NRTL")))
    a.update(calc)
    if o.random() < 0.3:
        a["precision"] = o.choice([1e-3, 3e-4, 5e-5, 1e-6, 1e-8, 1e-10])
    return a, info


def g_partial_fluxes(o, M):
    a, info = _flux_args(o, M)
    if o.random() < 0.4:
        t = o.randrange(len(M.spec["perm_tuples"]))
        i, j = M.spec["perm_tuples"][t]
        a["first_component_permeance"] = ref("permeances", i)
        a["second_component_permeance"] = ref("permeances", j)
    return {"fn": "partial_fluxes", "args": a}


def g_permeate_composition(o, M):
    a, _ = _flux_args(o, M)
    return {"fn": "permeate_composition", "args": a}


def g_separation_factor(o, M):
    a, _ = _flux_args(o, M)
    return {"fn": "separation_factor", "args": a}


def g_ideal_curve(o, M):
    a, _ = _flux_args(o, M, 0.85)
    a.pop("composition")
    a["compositions"] = ref("comp_lists", o.randrange(len(M.spec["comp_lists"])))
    return {"fn": "ideal_diffusion_curve", "args": a}


def _nonideal_common(o, M, want_single_inplace=0.4):
    """Pick (pv, curve set) for a non-ideal model; biased to the single-curve + ideal-experiments
    combination where the fitted function's b[0] is assigned in place."""
    pairs = []
    for i in range(len(M.pvs)):
        info = M.pv_info(i)
        for ci in info["sets"]:
            pairs.append((i, ci, info, M.set_meta(ci)))
    if not pairs:
        return None
    single = [p for p in pairs if p[3]["n_curves"] == 1 and p[2]["has_ideal"] and p[2]["match"]]
    if single and o.random() < want_single_inplace:
        return o.choice(single)
    if o.random() < 0.1 and M.csets:
        # foreign set: a curve set of another membrane (legal: sets are just data)
        i = o.randrange(len(M.pvs))
        ci = o.randrange(len(M.csets))
        return (i, ci, M.pv_info(i), M.set_meta(ci))
    return o.choice(pairs)


def g_nonideal_curve(o, M):
    pk = _nonideal_common(o, M)
    if pk is None:
        return None
    i, ci, info, s = pk
    multi = s["n_curves"] > 1
    T = o.choice(s["temps"]) if o.random() < 0.35 else round(o.choice(s["temps"]) + o.uniform(-3, 8), 2)
    steps = o.randint(1, 10) if o.random() < 0.9 else 0
    x0 = wg.rnd(o, s["x_lo"], s["x_hi"], 5)
    dx = wg.rnd(o, 0.002, 0.03, 4) * o.choice([1, -1])
    if o.random() < 0.12:
        dx = o.choice([0.2, -0.2, 0.5])          # walks out of [0, 1]: raises after the fits
    calc = calc_kw(o, 0.12)
    a = {"pv": ref("pvs", i), "diffusion_curve_set": ref("curve_sets", ci), "feed_temperature": T,
         "initial_feed_composition": {"$new_comp": [x0, "weight"]} if o.random() < 0.5 else ref("compositions", o.randrange(len(M.spec["compositions"]))),
         "delta_composition": dx, "number_of_steps": steps}
    a.update(permeate_kw(o, T, calc.get("calculation_type", "NRTL")))
    a.update(calc)
    a.update(orders_kw(o, multi, s.get("n_points", 99)))
    if o.random() < 0.3:
        a["initial_permeances"] = ref("perm_tuples", o.randrange(len(M.spec["perm_tuples"])))
    return {"fn": "non_ideal_diffusion_curve", "args": a}


def _process_common(o, M, a):
    a["number_of_steps"] = o.choice([1, 2, 3, 5, 8, 12, 15])
    a["delta_hours"] = wg.rnd(o, 0.05, 0.5, 3) if o.random() < 0.75 else o.choice([2.0, 5.0, 20.0])   # large: exhausts the feed after k steps
    if o.random() < 0.2:
        a["precision"] = o.choice([1e-3, 1e-4, 1e-6])
    a.update(calc_kw(o, 0.12))


def g_ideal_process(o, M):
    cands = [i for i in range(len(M.pvs)) if M.pv_info(i)["has_ideal"] and M.pv_info(i)["match"]]
    i = o.choice(cands) if (cands and o.random() < 0.85) else o.randrange(len(M.pvs))
    a = {"pv": ref("pvs", i), "conditions": ref("conditions", o.randrange(len(M.spec["conditions"])))}
    _process_common(o, M, a)
    op = {"fn": o.choice(["ideal_isothermal_process", "ideal_non_isothermal_process"]), "args": a}
    if o.random() < 0.04:
        # a long, finely stepped run (thousands of flux solves at slowly drifting temperatures in one interpreter)
        op["fn"] = "ideal_non_isothermal_process"
        a["number_of_steps"] = o.choice([1100, 1600, 2400])
        a["delta_hours"] = wg.rnd(o, 0.0005, 0.004, 5)
        a.pop("precision", None)
    if o.random() < 0.3:
        op["then"] = sorted(o.sample(["get_separation_factor", "get_psi", "get_selectivity"], o.randint(1, 3)))
    return op


def g_nonideal_process(o, M):
    pk = _nonideal_common(o, M)
    if pk is None:
        return None
    i, ci, info, s = pk
    multi = s["n_curves"] > 1
    # conditions whose temperature suits the set
    conds = M.spec["conditions"]
    near = [k for k, c in enumerate(conds) if min(abs(c["T"] - t) for t in s["temps"]) < 15]
    exact = [k for k, c in enumerate(conds) if c["T"] in s["temps"]]
    if exact and o.random() < 0.3:
        k = o.choice(exact)
    elif near and o.random() < 0.8:
        k = o.choice(near)
    else:
        k = o.randrange(len(conds))
    a = {"pv": ref("pvs", i), "conditions": ref("conditions", k), "diffusion_curve_set": ref("curve_sets", ci)}
    _process_common(o, M, a)
    a.update(orders_kw(o, multi, s.get("n_points", 99)))
    if o.random() < 0.3:
        a["initial_permeances"] = ref("perm_tuples", o.randrange(len(M.spec["perm_tuples"])))
    op = {"fn": o.choice(["non_ideal_isothermal_process", "non_ideal_non_isothermal_process"]), "args": a}
    if o.random() < 0.3:
        op["then"] = sorted(o.sample(["get_separation_factor", "get_psi", "get_selectivity"], o.randint(1, 3)))
    if o.random() < 0.35:
        op["eval_fits"] = grid(o, 3)                  # evaluate the returned permeance_fits (scalars and arrays) against the closed form
    return op


def _mixture_components(M, mixref):
    if "builtin" in mixref:
        c1, c2 = wg.MIXTURES[mixref["builtin"]]
        return {"builtin": c1}, {"builtin": c2}
    mx = M.spec["custom_mixtures"][mixref["custom"]]
    return mx["first"], mx["second"]


def g_membrane_method(o, M):
    mi = o.randrange(len(M.membranes))
    m = M.membranes[mi]
    mixref = m.get("mixture_ref") or {"builtin": m["mixture"]}
    c1, c2 = _mixture_components(M, mixref)
    comp = o.choice([c1, c2]) if o.random() < 0.9 else {"builtin": o.choice(["DME", "Benzene", "H2O"])}
    T = pick_T(o, m, M)
    which = o.choice(["get_permeance", "get_permeance", "calculate_activation_energy", "get_ideal_selectivity",
                      "get_estimated_pure_component_flux", "get_penetrant_data"])
    a = {"membrane": ref("membranes", mi)}
    if which == "get_permeance":
        a.update({"temperature": T, "component": {"$c": comp}})
        if o.random() < 0.3:
            a["initial_permeance"] = ref("permeances", o.randrange(len(M.spec["permeances"])))
    elif which in ("calculate_activation_energy", "get_penetrant_data"):
        a["component"] = {"$c": comp}
    elif which == "get_ideal_selectivity":
        a.update({"temperature": T, "first_component": {"$c": c1}, "second_component": {"$c": c2}})
        if o.random() < 0.5:
            a["calculation_type"] = o.choice(["weight", "molar"])
    else:
        a.update({"temperature": T, "component": {"$c": comp}})
        a.update(permeate_kw(o, T))
    return {"fn": which, "args": a}


def _any_mixture(o, M):
    if o.random() < 0.3 and M.spec["custom_mixtures"]:
        return {"custom": o.randrange(len(M.spec["custom_mixtures"]))}
    return {"builtin": o.choice(sorted(wg.MIXTURES))}


def g_thermo(o, M):
    mixref = _any_mixture(o, M)
    a = {"temperature": wg.rnd(o, 283.15, 383.15, 2), "mixture": {"$m": mixref},
         "composition": ref("compositions", o.randrange(len(M.spec["compositions"])))}
    a.update(calc_kw(o, 0.35))
    return {"fn": o.choice(["get_partial_pressures", "calculate_activity_coefficients"]), "args": a}


def g_composition_convert(o, M):
    return {"fn": o.choice(["to_molar", "to_weight"]),
            "args": {"composition": ref("compositions", o.randrange(len(M.spec["compositions"]))), "mixture": {"$m": _any_mixture(o, M)}}}


def g_permeance_op(o, M):
    n = len(M.spec["permeances"])
    if o.random() < 0.3:
        return {"fn": "permeance_add", "args": {"left": ref("permeances", o.randrange(n)), "right": ref("permeances", o.randrange(n))}}
    a = {"permeance": ref("permeances", o.randrange(n)), "to_units": o.choice(["GPU", "SI", "kg/(m2*h*kPa)", "kg/(m2*h*kPa)"])}
    if o.random() < 0.85:
        a["component"] = {"$c": {"builtin": o.choice(["H2O", "EtOH", "MeOH", "iPOH"])}} if o.random() < 0.7 or not M.spec["custom_components"] \
            else {"$c": {"custom": o.randrange(len(M.spec["custom_components"]))}}
    return {"fn": "permeance_convert", "args": a}


def g_component_method(o, M):
    comp = {"builtin": o.choice(["H2O", "MeOH", "EtOH", "iPOH", "MTBE", "ETBE", "DME", "DMC", "CycloHexane", "Benzene", "Toluene", "AceticAcid"])} \
        if o.random() < 0.7 or not M.spec["custom_components"] else {"custom": o.randrange(len(M.spec["custom_components"]))}
    method = o.choice(["get_vapor_pressure", "get_vaporisation_heat", "get_specific_heat", "get_cooling_heat"])
    T = wg.rnd(o, 273.15, 393.15, 2)
    params = [T] if method != "get_cooling_heat" else [T, round(T - o.uniform(5, 80), 2)]
    return {"fn": "component_method", "method": method, "args": {"component": {"$c": comp}, "params": params}}


def g_program(o, M):
    return {"fn": "program", "args": {"program": ref("programs", o.randrange(len(M.spec["programs"]))), "time": wg.rnd(o, 0, 30, 3)}}


def g_measurements_from(o, M):
    if o.random() < 0.5 and M.csets:
        return {"fn": "measurements_from", "method": o.choice(["from_diffusion_curves_first", "from_diffusion_curves_second"]),
                "args": {"source": ref("curve_sets", o.randrange(len(M.csets)))}}
    if not M.spec["curves"]:
        return None
    return {"fn": "measurements_from", "method": o.choice(["from_diffusion_curve_first", "from_diffusion_curve_second"]),
            "args": {"source": ref("curves", o.randrange(len(M.spec["curves"])))}}


def meas_info(M, k):
    ms = M.spec["measurements"][k]
    if "points" in ms:
        return len(ms["points"]), len({p[1] for p in ms["points"]})
    s = M.set_meta(ms["from_set"])
    return s.get("n_points", 10), s["n_curves"]


def g_copy_object(o, M):
    """The caller copies one of the shared objects (copy / deepcopy / pickle round trip) and keeps the copy."""
    pool = o.choice(["conditions", "conditions", "compositions", "curves", "measurements", "functions", "membranes", "permeances"])
    n = len(M.spec.get(pool, []))
    if not n:
        return None
    return {"fn": "copy_object", "how": o.choice(["deepcopy", "deepcopy", "copy", "pickle"]), "keep": True,
            "args": {"obj": ref(pool, o.randrange(n))}}


def g_new_mixture(o, M):
    """A user constructs a Mixture of their own that carries the name of a built-in one (constructor call)."""
    bname = o.choice(sorted(wg.MIXTURES))
    c1, c2 = wg.MIXTURES[bname]
    return {"fn": "new_mixture", "args": {"name": bname, "first_component": {"$c": {"builtin": c1}}, "second_component": {"$c": {"builtin": c2}},
                                          "nrtl": {"g12": wg.rnd(o, -6000, 6000, 2), "g21": wg.rnd(o, -6000, 6000, 2), "alpha12": wg.rnd(o, 0.2, 0.5, 3)}}}


def g_load_membrane(o, M):
    """Load a membrane directory of the world again (file loader) and report what was loaded."""
    cands = [m["dir"] for m in M.membranes if not m.get("constructed")]
    if not cands:
        return None
    op = {"fn": "load_membrane", "dir": o.choice(cands), "args": {}}
    if o.random() < 0.4:
        op["rel"] = True         # a path relative to the working directory (the scratch root), as in the library's own examples
    return op


def g_pool_measurements(o, M):
    n = len(M.spec["measurements"])
    k = o.randint(2, 3)
    return {"fn": "pool_measurements", "args": {"sources": [ref("measurements", o.randrange(n)) for _ in range(k)]}}


def _best_orders(o, npts, max_n, max_m):
    if npts > 12:
        return 2, 1
    return (min(max_n, 3), min(max_m, 2)) if o.random() < 0.7 else (1, min(max_m, 3))


def _is_decay(M, k):
    ms = M.spec["measurements"][k]
    pts = ms.get("points")
    if not pts or len(pts) < 4:
        return False
    lo = min(pts, key=lambda q: q[0])
    hi = max(pts, key=lambda q: q[0])
    return hi[2] > 0 and lo[2] / hi[2] > 8.0          # p falls by about an order of magnitude across x


def iv(x):
    """Plain int value of an order argument (orders may be wrapped as numpy integers: {"$npint": v})."""
    return x["$npint"] if isinstance(x, dict) else x


def g_fit(o, M, best=None, allow_none=True, max_n=3, max_m=3):
    k = o.randrange(len(M.spec["measurements"]))
    npts, ntemps = meas_info(M, k)
    decay = _is_decay(M, k)
    best = (o.random() < (0.7 if decay else 0.4)) if best is None else best
    a = {"data": ref("measurements", k)}
    if best:
        if 12 < npts <= 40 and o.random() < 0.12:
            hi_n, hi_m = 3, 2          # a large scan (points x candidates): expensive, so rare
        else:
            hi_n, hi_m = _best_orders(o, npts, max_n, max_m)
        if allow_none and npts <= 9 and o.random() < 0.3:
            pass
        else:
            a["n"] = o.randint(0, hi_n)
            a["m"] = o.randint(0, hi_m if ntemps > 1 else min(hi_m, 1))
            if npts <= 5 and o.random() < 0.5:
                a["n"] = 3                      # as many (or more) orders as points: the library only warns about it
                a["m"] = min(a["m"], 1)
            if 30 <= npts <= 40 and ntemps > 1 and o.random() < 0.35:
                a["n"], a["m"] = 3, 2           # the largest scan the stated quantifier allows with 12 candidates (points x candidates > 400)
    else:
        if allow_none and npts <= 16 and o.random() < 0.15:
            pass
        else:
            a["n"] = o.randint(0, max_n if npts <= 60 else 1)
            a["m"] = o.randint(0, (max_m if npts <= 60 else 1) if ntemps > 1 else min(max_m, 1))
    if o.random() < (0.7 if decay else 0.35):
        a["include_zero"] = True        # a vanishing component is exactly what the forced zero point is meant for
    if decay and best and npts <= 18 and o.random() < 0.6:
        a["n"], a["m"] = o.randint(0, 1), min(3, max(0, ntemps))
    r = o.random()
    if r < (0.7 if decay else 0.4):
        a["component_index"] = 1
    elif r < 0.45:
        a["component_index"] = o.choice([2, -1])      # invalid: must raise without touching anything
    if o.random() < 0.08:
        for key in ("n", "m"):
            if key in a and o.random() < 0.7:
                a[key] = {"$npint": a[key]}           # numpy.int64 instead of int (orders taken from an array / a data frame)
    if a.get("include_zero") and o.random() < 0.15:
        a["include_zero"] = o.choice([1, {"$npbool": True}])      # a truthy flag that is not the bool True (1, numpy.bool_)
    elif "include_zero" not in a and o.random() < 0.04:
        a["include_zero"] = 0
    if a.get("component_index") in (0, 1) and o.random() < 0.1:
        a["component_index"] = {"$npint": a["component_index"]}
    return {"fn": "find_best_fit" if best else "fit", "args": a}


def g_fit_vle(o, M, methods=None):
    if not M.spec["vle"]:
        return None
    return {"fn": "fit_vle", "args": {"data": ref("vle", o.randrange(len(M.spec["vle"]))), "method": o.choice(methods or ["Nelder-Mead", "Powell", "L-BFGS-B", "SLSQP", "COBYLA"])}}


def grid(o, k=4):
    g = [[wg.rnd(o, 0.0, 1.0, 4), wg.rnd(o, 283.15, 383.15, 2)] for _ in range(k)]
    if o.random() < 0.3:
        g[o.randrange(k)][1] = o.randint(290, 380)        # an integer temperature is a legal argument
    if o.random() < 0.2:
        g[o.randrange(k)][0] = o.choice([0, 1])           # so is an integer composition
    return g


def g_fn_op(o, M):
    n = len(M.spec["functions"])
    r = o.random()
    if r < 0.4:
        op = {"fn": "fn_call", "grid_args": grid(o), "args": {"function": ref("functions", o.randrange(n))}}
        if o.random() < 0.4:
            op["as_array"] = o.choice(["x", "t"])       # evaluated on a numpy array of compositions or of temperatures
        return op
    if r < 0.8:
        fi = o.randrange(n)
        const = o.choice([2, 0.5, -1.0, wg.logu(o, 1e-3, 1e3, 6), 0])
        rr = o.random()
        if rr < 0.08:
            const = {"$npint": o.choice([2, 3, -1, 0])}
        elif rr < 0.14:
            const = {"$npfloat": wg.logu(o, 1e-3, 1e3, 6)}
        elif rr < 0.34:
            # one constant per product stream: an array constant gives a vector-valued function, (f*c)(x,T) = c*f(x,T) element by element
            fs = M.spec["functions"][fi]
            k = 1 + len(fs.get("a") or []) + len(fs.get("b") or [])
            k = k if o.random() < 0.4 else o.randint(1, 8)
            const = {"$array": [wg.rnd(o, 0.25, 4.0, 4) for _ in range(k)]}
        return {"fn": "fn_mul", "grid": grid(o, 3), "args": {"function": ref("functions", fi), "constant": const}}
    nn, mm = o.randint(0, 3), o.randint(0, 3)
    arr = [round(o.uniform(-5, 5), 6) for _ in range(2 + nn + mm)]
    if o.random() < 0.15:
        arr = arr[:-1]          # wrong length: AssertionError
    return {"fn": "fn_from_array", "args": {"array": {"$array": arr} if o.random() < 0.5 else arr, "n": nn, "m": mm}}


def g_make_curve(o, M):
    li = o.randrange(len(M.spec["comp_lists"]))
    idxs = M.spec["comp_lists"][li]
    a = {"mixture": {"$m": _any_mixture(o, M)}, "membrane_name": "made in history", "feed_temperature": wg.rnd(o, 303.15, 363.15, 2),
         "feed_compositions": ref("comp_lists", li)}
    r = o.random()
    if r < 0.45:
        a["partial_fluxes"] = [{"$tuple": [wg.logu(o, 1e-4, 5), wg.logu(o, 1e-6, 1)]} for _ in idxs]
        a.update(permeate_kw(o, a["feed_temperature"], both=0.1))
    elif r < 0.9:
        a["permeances"] = [ref("perm_tuples", o.randrange(len(M.spec["perm_tuples"]))) for _ in idxs]
    # else: neither -> must raise
    return {"fn": "make_curve", "args": a}


def g_curve_metric(o, M):
    if not M.spec["curves"]:
        return None
    return {"fn": "curve_metric", "method": o.choice(["permeate_composition", "get_separation_factor", "get_psi", "get_permeances", "get_selectivity"]),
            "args": {"curve": ref("curves", o.randrange(len(M.spec["curves"])))}}


# =========================================================================================
# execution
# =========================================================================================

class Violation(Exception):
    def __init__(self, oracle, op, detail):
        super().__init__(oracle)
        self.oracle = oracle
        self.op = op
        self.detail = detail


def op_key(op, spec=None):
    """Identity of a call for the repeat oracle.  For fits, the data object is identified by its CONTENT (the points, in
    order) when it was built from stated points: two equal data sets are 'equal data' whichever object holds them."""
    d = {k: v for k, v in op.items() if k not in ("id", "clock")}
    if spec is not None and op.get("fn") in ("fit", "find_best_fit"):
        r = (op.get("args") or {}).get("data")
        if isinstance(r, dict) and isinstance(r.get("$"), list) and r["$"][0] == "measurements":
            ms = spec["measurements"][r["$"][1]]
            if "points" in ms:
                d["args"] = dict(op["args"], data={"$points": digest(ms["points"])})
                d.pop("loss_on", None)
    return digest(d)


def materialise(ctx, root, spec):
    for m in spec["membranes"]:
        if not m.get("constructed"):
            wg.materialise_membrane(root, m, ctx.repo)
    if spec.get("vle"):
        os.makedirs(os.path.join(root, "vle"), exist_ok=True)
        for name in spec["vle"]:
            shutil.copyfile(os.path.join(ctx.repo, "tests", "VLE_data", "binary", name), os.path.join(root, "vle", name))


def outcome_of(rep):
    k = rep["kind"]
    if k == "ok":
        return "ok:" + rep["digest"]
    if k == "exc":
        return "exc:" + rep.get("exc", "?")
    return k


def explain_diff(a, b):
    from .canon_diff import first_diff_plain
    return first_diff_plain(a, b)


def execute(ctx, plan, stats=None, extra_oracles=None, prop="C20", names=None):
    names = names or {"fresh": prop + ".fresh", "snapshot": prop + ".snapshot", "repeat": prop + ".repeat"}
    st = stats if stats is not None else {}
    for k in ("ops", "calls_ok", "calls_raised", "budget_truncated", "fresh_checks", "snapshot_checks", "repeat_checks",
              "new_interpreter_refs"):
        st.setdefault(k, 0)
    st.setdefault("pairs", set())
    st.setdefault("entry_points", {})
    st.setdefault("exc_classes", {})
    st.setdefault("clock_span_us", 0)
    root = ctx.new_root()
    trace = []
    violation = None
    try:
        materialise(ctx, root, plan["world"])
        init = {"prop": prop, "root": root, "world": plan["world"], "budget": plan["budget"],
                "entropy": derive(plan["run_seed"], "entropy") % (2**31)}
        hist = ctx.A.fork(init)
        fresh = ctx.B.fork(dict(init, entropy=derive(plan["run_seed"], "entropy-ref") % (2**31)))
        wa, wb = hist.hello["world"], fresh.hello["world"]
        if wa != wb:
            raise HarnessError("history and reference sessions built different worlds: %r vs %r" % (wa, wb))
        trace.append({"world": wa["world_digest"]})
        now = T0_US
        seen = {}
        prev_fns = []
        executed = []      # (op, outcome of its fresh-state execution)
        drifted = False    # module/class-level or interpreter-level state changed during the history
        for op in plan["ops"]:
            st["ops"] += 1
            ck = op.get("clock") or {"gap": 1000, "step": 1}
            now += ck.get("gap", 1000)
            rep = hist.op(op, {"start": now, "step": ck.get("step", 1)})
            now += abs(ck.get("step", 1)) * (rep.get("clock", {}).get("reads", 0) + 1)
            st["clock_span_us"] += ck.get("gap", 1000)
            refrep = fresh.op(op, {"start": now + DECADE_US, "step": 1}, fresh=True)
            ho, ro = outcome_of(rep), outcome_of(refrep)
            fn = op["fn"]
            st["entry_points"][fn] = st["entry_points"].get(fn, 0) + 1
            rec = {"id": op.get("id"), "fn": fn, "outcome": ho, "clock_reads": rep.get("clock", {}).get("reads")}
            if rep["kind"] == "skip" or refrep["kind"] == "skip":
                raise HarnessError("unexpected skip: %r %r" % (rep.get("why"), refrep.get("why")))
            if rep["kind"] == "ok":
                st["calls_ok"] += 1
            elif rep["kind"] == "exc":
                st["calls_raised"] += 1
                st["exc_classes"][rep["exc"]] = st["exc_classes"].get(rep["exc"], 0) + 1
            for pf in prev_fns:
                st["pairs"].add((pf, fn))
            prev_fns.append(fn)
            # --- fresh-state oracle
            st["fresh_checks"] += 1
            if ho != ro:
                det = {"history": ho, "fresh": ro, "position": len(trace) - 1, "previous_calls": prev_fns[:-1]}
                if rep["kind"] == "ok" and refrep["kind"] == "ok":
                    from .canon_diff import first_diff_plain
                    det["first_difference"] = first_diff_plain(rep["tree"], refrep["tree"])
                else:
                    det["history_msg"] = rep.get("msg")
                    det["fresh_msg"] = refrep.get("msg")
                raise Violation(names["fresh"], op, det)
            if rep["kind"] == "budget":
                st["budget_truncated"] += 1
                trace.append(rec)
                break
            # --- snapshot oracle
            st["snapshot_checks"] += 1
            if rep.get("kept_changed"):
                raise Violation(names["snapshot"], op, {"changed": rep["kept_changed"], "outcome": ho.split(":")[0],
                                                        "note": "an object returned by an earlier call (and still held by the caller) was changed by this call"})
            if rep.get("snapshot_changed"):
                raise Violation(names["snapshot"], op, {"changed": rep["snapshot_changed"], "outcome": ho.split(":")[0]})
            if rep.get("interpreter_state_changed"):
                st["probe_interpreter_state_changed"] = st.get("probe_interpreter_state_changed", 0) + 1
                rec["interp_changed"] = rep["interpreter_state_changed"]
            if rep.get("library_state_changed"):
                st["probe_library_state_changed"] = st.get("probe_library_state_changed", 0) + 1
                rec["lib_changed"] = rep["library_state_changed"]
                drifted = True
            executed.append((op, ro))
            # --- repeat oracle
            key = op_key(op, plan["world"])
            if key in seen:
                st["repeat_checks"] += 1
                if seen[key] != ho:
                    raise Violation(names["repeat"], op, {"first_time": seen[key], "now": ho})
            seen[key] = ho
            if extra_oracles:
                more = extra_oracles(op, rep, refrep, fresh, st, plan, now)
                if more:
                    rec.update(more)
            trace.append(rec)
            last_ok = (op, ho)
        # --- witness calls: if hidden library-/interpreter-level state drifted during the history, every
        # call of the history is made once more at the end (and a few default-argument calls are added);
        # each must still equal its fresh-state outcome.  Only a differing outcome is a violation.
        truncated = bool(trace) and trace[-1].get("outcome") == "budget"
        paranoid = derive(plan["run_seed"], "paranoid") % 16 == 0     # witness calls also without any observed drift, in about 1 of 16 runs (spread over all lanes)
        if (drifted or paranoid or any(r.get("interp_changed") for r in trace)) and not truncated:
            st["witness_runs"] = st.get("witness_runs", 0) + 1
            wit = [(dict(op, id="witness-%s" % op.get("id")), ro) for op, ro in executed]
            for wop in witness_battery(plan):
                r0 = fresh.op(wop, {"start": now + DECADE_US, "step": 1}, fresh=True)
                wit.append((wop, outcome_of(r0)))
            for wop, ro in wit:
                now += 1000
                rw = hist.op(wop, {"start": now, "step": 1})
                st["witness_calls"] = st.get("witness_calls", 0) + 1
                hw = outcome_of(rw)
                if hw == "budget" or ro == "budget":
                    break
                if hw != ro:
                    raise Violation(names["fresh"], wop, {"history": hw, "fresh": ro, "note": "witness call after hidden state drift",
                                                          "drift": [r.get("lib_changed") or r.get("interp_changed") for r in trace if r.get("lib_changed") or r.get("interp_changed")][:3],
                                                          "previous_calls": prev_fns})
                if rw.get("snapshot_changed"):
                    raise Violation(names["snapshot"], wop, {"changed": rw["snapshot_changed"], "note": "witness call"})
            trace.append({"witness": len(wit)})
        # --- the fork shortcut itself is checked: last call again in a brand-new interpreter
        if plan.get("new_interpreter_ref") and plan["ops"] and trace and trace[-1].get("fn") and trace[-1].get("outcome") != "budget":
            from .lane import Zygote
            op = plan["ops"][len([r for r in trace if r.get("fn")]) - 1]
            hs3 = derive(plan["run_seed"], "hashseed-new-interpreter") % 4294967290 + 1
            z = Zygote(hs3, "-", ctx.repo, "N")
            try:
                s3 = z.fork(dict(init, entropy=derive(plan["run_seed"], "entropy-new") % (2**31)))
                if s3.hello["world"] != wa:
                    raise HarnessError("new interpreter built a different world")
                r3 = s3.op(op, {"start": now + 2 * DECADE_US, "step": 1})
                s3.close()
            finally:
                z.close()
            st["new_interpreter_refs"] += 1
            o3 = outcome_of(r3)
            if o3 != trace[-1]["outcome"]:
                det = {"history": trace[-1]["outcome"], "new_interpreter": o3, "hash_seed": hs3}
                raise Violation(names["fresh"], op, det)
            trace.append({"new_interpreter": "agrees"})
    except Violation as v:
        violation = {"oracle": v.oracle, "op": v.op, "detail": v.detail}
        trace.append({"violation": v.oracle, "fn": v.op.get("fn")})
    finally:
        try:
            ctx.end_sessions()
        finally:
            ctx.drop_root(root)
    cov = digest([[r.get("fn"), (r.get("outcome") or "").split(":")[0]] for r in trace])
    nontrivial = sum(1 for r in trace if r.get("fn")) >= 2
    return {"trace": trace, "trace_digest": digest(trace), "violation": violation, "coverage_sig": cov, "nontrivial": nontrivial}


def witness_battery(plan):
    """Default-argument calls on built-in objects (explicit data: part of the replayable plan's semantics)."""
    ops = []
    for mix, T, x in (("H2O_EtOH", 333.15, 0.3), ("MeOH_Toluene", 318.15, 0.6)):
        ops.append({"fn": "get_partial_pressures", "id": "battery", "args": {"temperature": T, "mixture": {"$m": {"builtin": mix}}, "composition": {"$new_comp": [x, "weight"]}}})
        ops.append({"fn": "calculate_activity_coefficients", "id": "battery", "args": {"temperature": T, "mixture": {"$m": {"builtin": mix}}, "composition": {"$new_comp": [x, "molar"]}}})
    spec = plan["world"]
    for i, (mi, mixref) in enumerate(spec.get("pvs", [])[:4]):
        m = spec["membranes"][mi]
        if m.get("has_ideal") and (m.get("ideal_temps") or []):
            ops.append({"fn": "partial_fluxes", "id": "battery", "args": {"pv": ref("pvs", i), "feed_temperature": m["ideal_temps"][0] + 2.5,
                                                                            "composition": {"$new_comp": [0.35, "weight"]}}})
            # both permeances zero: 0/0 inside the solver (numpy 'invalid'), by default a nan that Composition rejects
            ops.append({"fn": "partial_fluxes", "id": "battery", "args": {"pv": ref("pvs", i), "feed_temperature": m["ideal_temps"][0],
                                                                            "composition": {"$new_comp": [0.5, "weight"]},
                                                                            "first_component_permeance": {"$new_perm": [0.0, None]},
                                                                            "second_component_permeance": {"$new_perm": [0.0, None]}}})
    M = Meta(spec)
    for k in range(min(2, len(spec.get("measurements", [])))):
        ops.append({"fn": "fit", "id": "battery", "args": {"data": ref("measurements", k), "n": 1, "m": 0}})
        if meas_info(M, k)[0] <= 12:       # default orders grow with sqrt(len(data)); keep the battery cheap
            ops.append({"fn": "fit", "id": "battery", "args": {"data": ref("measurements", k)}})
    for mix in ("H2O_EtOH", "MeOH_DMC"):
        ops.append({"fn": "make_curve", "id": "battery", "args": {
            "mixture": {"$m": {"builtin": mix}}, "membrane_name": "battery", "feed_temperature": 333.15,
            "feed_compositions": [{"$new_comp": [0.2, "weight"]}, {"$new_comp": [0.6, "weight"]}],
            "partial_fluxes": [{"$tuple": [0.4, 0.02]}, {"$tuple": [0.9, 0.01]}]}})
    loaded = [m["dir"] for m in spec.get("membranes", []) if not m.get("constructed")]
    if loaded:
        ops.append({"fn": "load_membrane", "id": "battery", "dir": loaded[0], "args": {}})
    if spec.get("vle"):
        ops.append({"fn": "fit_vle", "id": "battery", "args": {"data": ref("vle", 0), "method": "Powell"}})
    # evaluations that overflow (exp -> inf), underflow and produce 0*inf: outcomes depend on numpy's error state
    ops.append({"fn": "fn_new_call", "id": "battery", "spec": {"n": 1, "m": 0, "alpha": 0.0, "a": [900.0], "b": [0.0], "array": True},
                "grid_args": [[1.0, 300.0], [0.5, 300.0]]})
    ops.append({"fn": "fn_new_call", "id": "battery", "spec": {"n": 1, "m": 0, "alpha": 2.5, "a": [-900.0], "b": [-300000.0], "array": False},
                "grid_args": [[1.0, 300.0], [0.0, 300.0], [1, 350]]})
    return ops


def signature(violation):
    if not violation:
        return None
    return [violation["oracle"], violation["op"].get("fn")]


def summarize(plan):
    out = []
    for op in plan["ops"]:
        s = op["fn"]
        if op.get("method"):
            s += "." + op["method"]
        a = op.get("args") or {}
        refs = ["%s[%d]" % tuple(v["$"]) for v in a.values() if isinstance(v, dict) and "$" in v]
        if refs:
            s += "(" + ",".join(refs) + ")"
        out.append(s)
    return out


# =========================================================================================
# world pruning (used by the shrinker): keep only what the remaining ops reference
# =========================================================================================

POOLS = ["custom_components", "custom_mixtures", "membranes", "compositions", "permeances", "perm_tuples", "programs", "conditions",
         "comp_lists", "curve_sets", "curves", "measurements", "functions", "vle", "pvs"]
POOL_OF_REF = {"components": "custom_components", "mixtures": "custom_mixtures"}


def _walk_refs(v, fn):
    """Call fn(kind, holder, key) for every reference inside a JSON value (kind: '$', '$c', '$m')."""
    if isinstance(v, dict):
        for k in list(v):
            if k == "$":
                fn("$", v, k)
            elif k in ("$c", "$m"):
                fn(k, v, k)
            else:
                _walk_refs(v[k], fn)
    elif isinstance(v, list):
        for x in v:
            _walk_refs(x, fn)


def prune_world(plan):
    import copy as _copy
    import json as _json
    p = _json.loads(_json.dumps(plan))      # a JSON round trip also breaks aliasing between reference dicts
    spec = p["world"]
    need = {k: set() for k in POOLS}

    def mark_custom(kind, r):
        if isinstance(r, dict) and "custom" in r:
            need["custom_components" if kind == "c" else "custom_mixtures"].add(r["custom"])

    def on_ref(kind, holder, key):
        if kind == "$":
            pool, idx = holder["$"]
            need[POOL_OF_REF.get(pool, pool)].add(idx)
        else:
            mark_custom(kind[1], holder[key])

    for op in p["ops"]:
        _walk_refs(op.get("args"), on_ref)
        if op.get("loss_on") is not None:
            need["measurements"].add(op["loss_on"])
        if op.get("objective_on") is not None:
            need["vle"].add(op["objective_on"])
    # closure
    changed = True
    while changed:
        before = sum(len(v) for v in need.values())
        for i in list(need["pvs"]):
            need["membranes"].add(spec["pvs"][i][0])
            mark_custom("m", spec["pvs"][i][1])
        for i in list(need["conditions"]):
            c = spec["conditions"][i]
            need["compositions"].add(c["comp_ref"])
            if c.get("program_ref") is not None:
                need["programs"].add(c["program_ref"])
        for i in list(need["comp_lists"]):
            need["compositions"].update(spec["comp_lists"][i])
        for i in list(need["perm_tuples"]):
            need["permeances"].update(spec["perm_tuples"][i])
        for i in list(need["curves"]):
            c = spec["curves"][i]
            if "from_set" in c:
                need["curve_sets"].add(c["from_set"])
            else:
                need["compositions"].update(c.get("comp_refs") or [])
                need["perm_tuples"].update(c.get("perm_tuple_refs") or [])
                mark_custom("m", c["mixture"])
        for i in list(need["measurements"]):
            if "from_set" in spec["measurements"][i]:
                need["curve_sets"].add(spec["measurements"][i]["from_set"])
        for i in list(need["curve_sets"]):
            c = spec["curve_sets"][i]
            if isinstance(c, dict):
                need["curve_sets"].add(c["molar_copy_of"] if "molar_copy_of" in c else c["replicate_of"])
            else:
                need["membranes"].add(c[0])
        for i in list(need["membranes"]):
            m = spec["membranes"][i]
            if m.get("constructed"):
                mark_custom("m", m.get("mixture_ref") or {})
                for e in m["experiments"]:
                    mark_custom("c", e["component"])
        for i in list(need["custom_mixtures"]):
            mark_custom("c", spec["custom_mixtures"][i]["first"])
            mark_custom("c", spec["custom_mixtures"][i]["second"])
        changed = sum(len(v) for v in need.values()) != before
    if all(len(need[k]) == len(spec.get(k, [])) for k in POOLS):
        return None
    remap = {k: {old: new for new, old in enumerate(sorted(need[k]))} for k in POOLS}

    def fix_custom(kind, r):
        if isinstance(r, dict) and "custom" in r:
            r["custom"] = remap["custom_components" if kind == "c" else "custom_mixtures"][r["custom"]]

    def rewrite(kind, holder, key):
        if kind == "$":
            pool, idx = holder["$"]
            holder["$"] = [pool, remap[POOL_OF_REF.get(pool, pool)][idx]]
        else:
            fix_custom(kind[1], holder[key])

    for op in p["ops"]:
        _walk_refs(op.get("args"), rewrite)
        if op.get("loss_on") is not None:
            op["loss_on"] = remap["measurements"][op["loss_on"]]
        if op.get("objective_on") is not None:
            op["objective_on"] = remap["vle"][op["objective_on"]]
    new = {}
    for k in POOLS:
        new[k] = [_copy.deepcopy(spec[k][i]) for i in sorted(need[k])] if k in spec else []
    for pv in new["pvs"]:
        pv[0] = remap["membranes"][pv[0]]
        fix_custom("m", pv[1])
    for c in new["conditions"]:
        c["comp_ref"] = remap["compositions"][c["comp_ref"]]
        if c.get("program_ref") is not None:
            c["program_ref"] = remap["programs"][c["program_ref"]]
    new["comp_lists"] = [[remap["compositions"][j] for j in l] for l in new["comp_lists"]]
    new["perm_tuples"] = [[remap["permeances"][j] for j in t] for t in new["perm_tuples"]]
    for c in new["curves"]:
        if "from_set" in c:
            c["from_set"] = remap["curve_sets"][c["from_set"]]
        else:
            if c.get("comp_refs") is not None:
                c["comp_refs"] = [remap["compositions"][j] for j in c["comp_refs"]]
            if c.get("perm_tuple_refs") is not None:
                c["perm_tuple_refs"] = [remap["perm_tuples"][j] for j in c["perm_tuple_refs"]]
            fix_custom("m", c["mixture"])
    for ms in new["measurements"]:
        if "from_set" in ms:
            ms["from_set"] = remap["curve_sets"][ms["from_set"]]
    cs = []
    for c in new["curve_sets"]:
        if isinstance(c, dict) and "replicate_of" in c:
            cs.append(dict(c, replicate_of=remap["curve_sets"][c["replicate_of"]]))
        elif isinstance(c, dict):
            cs.append(dict(c, molar_copy_of=remap["curve_sets"][c["molar_copy_of"]]))
        else:
            cs.append([remap["membranes"][c[0]], c[1]])
    new["curve_sets"] = cs
    for m in new["membranes"]:
        if m.get("constructed"):
            fix_custom("m", m.get("mixture_ref") or {})
            for e in m["experiments"]:
                fix_custom("c", e["component"])
    for mx in new["custom_mixtures"]:
        fix_custom("c", mx["first"])
        fix_custom("c", mx["second"])
    p["world"] = new
    return p
