"""Session side: turn explicit spec dicts of a run plan into library objects, and library
objects into plain 'views' (raw persisted fields) for the lane's oracles."""
import os
from pathlib import Path

import numpy

from pyvaporation import (
    Components,
    Composition,
    Conditions,
    DiffusionCurve,
    DiffusionCurveSet,
    Measurements,
    Membrane,
    Mixtures,
    Permeance,
    Pervaporation,
    PervaporationFunction,
    TemperatureProgram,
)
from pyvaporation.optimizer.optimizer import Measurement

from .canon import plain


def composition(spec):
    return Composition(p=spec[0], type=spec[1])


def permeance(spec):
    if len(spec) > 1 and spec[1] is not None:
        return Permeance(value=spec[0], units=spec[1])
    return Permeance(value=spec[0])


def program(spec):
    if spec is None:
        return None
    co = list(spec["coefficients"])
    if spec.get("array"):
        co = numpy.array(co, dtype=float)
    return TemperatureProgram(coefficients=co, type=spec["type"])


def conditions(spec):
    return Conditions(
        membrane_area=spec["area"],
        initial_feed_temperature=spec["T"],
        initial_feed_amount=spec["amount"],
        initial_feed_composition=composition(spec["comp"]),
        permeate_temperature=spec.get("pt"),
        permeate_pressure=spec.get("pp"),
        temperature_program=program(spec.get("program")),
    )


def function(spec):
    a, b = list(spec["a"]), list(spec["b"])
    if spec.get("array"):
        a, b = numpy.array(a, dtype=float), numpy.array(b, dtype=float)
    return PervaporationFunction(n=spec["n"], m=spec["m"], alpha=spec["alpha"], a=a, b=b)


def measurements(points):
    return Measurements(data=[Measurement(x=p[0], t=p[1], p=p[2]) for p in points])


def load_membrane(root, dirname):
    return Membrane.load(Path(os.path.join(root, dirname)))


def curve_set(membrane, name):
    for s in membrane.diffusion_curve_sets or []:
        if s.name == name:
            return s
    raise KeyError("curve set %r not in membrane %r" % (name, membrane.name))


def mixture(name):
    return getattr(Mixtures, name)


def component(name):
    return getattr(Components, name)


def hand_curve(spec):
    mix = mixture(spec["mixture"])
    kw = dict(
        mixture=mix,
        membrane_name=spec.get("membrane_name", "hand"),
        feed_temperature=spec["T"],
        feed_compositions=[composition(c) for c in spec["comps"]],
        permeate_temperature=spec.get("pt"),
        permeate_pressure=spec.get("pp"),
        comments=spec.get("comments"),
    )
    if spec.get("fluxes") is not None:
        kw["partial_fluxes"] = [tuple(f) for f in spec["fluxes"]]
    if spec.get("permeances") is not None:
        kw["permeances"] = [(permeance([p[0], spec.get("units")]), permeance([p[1], spec.get("units")])) for p in spec["permeances"]]
    return DiffusionCurve(**kw)


# ---------------------------------------------------------------------------------------
# views


def _comp(c):
    return [plain(c.p), c.type]


def _perm(p):
    return [plain(p.value), p.units]


def _seq(x):
    if x is None:
        return None
    return plain(list(x)) if not isinstance(x, (list, tuple)) else plain(x)


def _scalar_or_list(x):
    if x is None:
        return None
    if isinstance(x, (list, tuple)):
        return plain(list(x))
    if hasattr(x, "tolist") and getattr(x, "ndim", 0) > 0:
        return plain(list(x))
    return plain(x)


def view_fn(f):
    if f is None:
        return None
    return {"n": plain(f.n), "m": plain(f.m), "alpha": plain(f.alpha), "a": plain(list(f.a)), "b": plain(list(f.b))}


def view_cond(c):
    if c is None:
        return None
    tp = getattr(c, "temperature_program", None)
    return {
        "area": plain(c.membrane_area),
        "T": plain(c.initial_feed_temperature),
        "amount": plain(c.initial_feed_amount),
        "comp": _comp(c.initial_feed_composition),
        "pt": plain(c.permeate_temperature),
        "pp": plain(c.permeate_pressure),
        "program": None if tp is None else {"coefficients": plain(list(tp.coefficients)), "type": tp.type},
    }


def view_process(pm):
    fits = pm.permeance_fits
    return {
        "mixture": pm.mixture.name,
        "time": _seq(pm.time),
        "feed_mass": _seq(pm.feed_mass),
        "feed_temperature": _seq(pm.feed_temperature),
        "permeate_temperature": _scalar_or_list(pm.permeate_temperature),
        "permeate_pressure": _scalar_or_list(pm.permeate_pressure),
        "feed_comp": [_comp(c) for c in pm.feed_compositions],
        "perm_comp": [_comp(c) for c in pm.permeate_composition],
        "flux": None if pm.partial_fluxes is None else [[plain(f[0]), plain(f[1])] for f in pm.partial_fluxes],
        "permeance": None if pm.permeances is None else [[_perm(p[0]), _perm(p[1])] for p in pm.permeances],
        "evap_heat": _seq(pm.feed_evaporation_heat),
        "cond_heat": _seq(pm.permeate_condensation_heat),
        "fits": None if fits is None else [view_fn(fits[0]), view_fn(fits[1])],
        "cond": view_cond(pm.initial_conditions),
    }


def view_curve(c):
    return {
        "mixture": c.mixture.name,
        "T": plain(c.feed_temperature),
        "pt": plain(c.permeate_temperature),
        "pp": plain(c.permeate_pressure),
        "comps": [_comp(x) for x in c.feed_compositions],
        "flux": None if c.partial_fluxes is None else [[plain(f[0]), plain(f[1])] for f in c.partial_fluxes],
        "permeance": None if c.permeances is None else [[_perm(p[0]), _perm(p[1])] for p in c.permeances],
    }
