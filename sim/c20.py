"""C20: random call histories over all modelling entry points on one shared object graph."""
from . import hist
from .common import derive, stream

PROP = "C20"

GENERATORS = [
    (hist.g_flux_from_permeate, 5), (hist.g_partial_fluxes, 9), (hist.g_permeate_composition, 5), (hist.g_separation_factor, 4),
    (hist.g_ideal_curve, 6), (hist.g_nonideal_curve, 9), (hist.g_ideal_process, 10), (hist.g_nonideal_process, 14),
    (hist.g_membrane_method, 8), (hist.g_thermo, 5), (hist.g_composition_convert, 3), (hist.g_permeance_op, 3),
    (hist.g_component_method, 3), (hist.g_program, 2), (hist.g_measurements_from, 4), (hist.g_fit, 9), (hist.g_fit_vle, 1),
    (hist.g_fn_op, 6), (hist.g_make_curve, 4), (hist.g_curve_metric, 5), (hist.g_pool_measurements, 2),
    (hist.g_new_mixture, 2), (hist.g_load_membrane, 3), (hist.g_copy_object, 4),
]


def gen_opts(tier):
    return {"new_interp_every": 40 if tier == "quick" else 15}


def gen_plan(verif_seed, run, new_interp_every=40):
    rs = derive(PROP, verif_seed, run)
    w, o, c = stream(rs, "world"), stream(rs, "ops"), stream(rs, "clock")
    spec = hist.gen_world(w)
    M = hist.Meta(spec)
    # swarm: each run enables a random subset of entry points (always at least 4)
    enabled = [(g, wt) for g, wt in GENERATORS if o.random() < 0.75]
    if len(enabled) < 4:
        enabled = GENERATORS
    n = o.randint(2, 12)
    ops = []
    tries = 0
    while len(ops) < n and tries < 60:
        tries += 1
        if ops and o.random() < 0.2:
            op = dict(o.choice(ops))          # the same call again, on the same shared objects
            op = {k: v for k, v in op.items() if k not in ("id", "clock")}
        else:
            g = o.choices([x[0] for x in enabled], [x[1] for x in enabled])[0]
            op = g(o, M)
            if op is None:
                continue
        op["id"] = len(ops)
        if op["fn"] in ("ideal_diffusion_curve", "non_ideal_diffusion_curve", "ideal_isothermal_process", "ideal_non_isothermal_process",
                        "non_ideal_isothermal_process", "non_ideal_non_isothermal_process", "measurements_from", "fit", "find_best_fit",
                        "make_curve", "load_membrane") and "keep" not in op and o.random() < 0.3:
            op["keep"] = True        # the caller holds on to what this call returned
        op["clock"] = {"gap": c.choice([1, 1000, 60_000_000, c.randint(1, 3 * 86400 * 1_000_000)]),
                       "step": c.choice([0, 1, 1, 1000, -1000, 3_600_000_000])}
        ops.append(op)
    return {"prop": PROP, "verif_seed": verif_seed, "run": run, "run_seed": rs, "budget": w.choice([2000, 5000, 20000]),
            "world": spec, "ops": ops, "new_interpreter_ref": bool(new_interp_every) and run % new_interp_every == 0}


def execute(ctx, plan, stats=None):
    return hist.execute(ctx, plan, stats, None, PROP)


signature = hist.signature
summarize = hist.summarize


def simplifiers(plan):
    fs = []
    for op in plan["ops"]:
        oid = op["id"]

        def plain_clock(p, oid=oid):
            for o_ in p["ops"]:
                if o_["id"] == oid and o_.get("clock") != {"gap": 1000, "step": 1}:
                    o_["clock"] = {"gap": 1000, "step": 1}
                    return p
            return None

        def fewer_steps(p, oid=oid):
            for o_ in p["ops"]:
                if o_["id"] == oid and (o_.get("args") or {}).get("number_of_steps", 0) > 2:
                    o_["args"]["number_of_steps"] = 2
                    return p
            return None

        def no_then(p, oid=oid):
            for o_ in p["ops"]:
                if o_["id"] == oid and o_.get("then"):
                    o_.pop("then")
                    return p
            return None

        def drop_optional(p, oid=oid):
            for o_ in p["ops"]:
                if o_["id"] == oid:
                    a = o_.get("args") or {}
                    for k in ("precision", "calculation_type", "permeate_temperature", "permeate_pressure", "initial_permeances"):
                        if k in a:
                            a.pop(k)
                            return p
            return None

        fs += [plain_clock, fewer_steps, no_then, drop_optional, drop_optional, drop_optional]
    fs.append(hist.prune_world)

    def no_new_interp(p):
        if p.get("new_interpreter_ref"):
            p["new_interpreter_ref"] = False
            return p
        return None

    fs.append(no_new_interp)
    return fs


SHRINK_EXECS = 200
RULE = ("one evaluation = one call history: an explicit world (2-4 membrane directories + a constructed membrane, custom and built-in "
        "components/mixtures, shared Composition/Permeance/Conditions/Measurements/curve/function objects and shared lists) and 2-12 "
        "modelling calls whose arguments are references into that world, executed in one interpreter session; every call is also "
        "executed as the first call on a pristine copy of the world in a session of another interpreter (other PYTHONHASHSEED, clock "
        "ten years later) and compared bit for bit; the whole world is deep-snapshotted after every call. Non-trivial = at least two "
        "calls executed; distinct = distinct (entry point, outcome class) sequences.")
REAL = ["pyvaporation (all of it, from the tree under test)", "numpy", "scipy.optimize", "pandas (file loaders)", "attrs"]
STUBS = ["datetime.now (scripted clock, other decade in the reference)", "PYTHONHASHSEED (chosen per zygote interpreter)",
         "os.urandom/uuid4/random (seeded)", "BLAS threads (pinned to 1)", "flux fixed-point loop step budget (harness-private abort)",
         "matplotlib (never called)"]
ASSUMPTIONS = [
    "a forked child of a zygote interpreter that made no modelling call stands for a fresh interpreter (sampled against brand-new interpreters in the thorough tier)",
    "world construction (constructors and file loaders) is not itself a modelling call",
    "thread-safety is not demanded: histories are sequential",
    "sampling, not enumeration: a clean batch is evidence, not proof",
]
