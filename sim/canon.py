"""Canonical form of library objects (session side).

canon(obj, numeric=False) -> JSON-able tree:
  float / numpy floating  -> {"f": "<16 hex digits of the IEEE-754 bits>"}  (all NaNs equal)
  int / numpy integer     -> int          bool -> bool        None -> None
  str / Path              -> {"s": text}
  list/tuple/ndarray/Series/set(sorted) -> [ ... ]
  dict                    -> {"d": [[canon(k), canon(v)], ...]} sorted by repr(key)
  object with __dict__ (attrs classes) -> {"o": ClassName, "v": {field: canon}}
  class (Mixtures, Components)         -> {"c": ClassName, "v": {attr: canon}} (data attributes only)

numeric=True drops text fields named comment/comments (they contain the clock).
Container and float *types* are deliberately not distinguished; values, lengths, order are.
"""
import hashlib
import json
import math
import random as _random
import struct
from pathlib import PurePath

import numpy

try:
    import pandas
except Exception:  # pragma: no cover
    pandas = None

TEXT_FIELDS_EXCLUDED = ("comment", "comments")
MAX_DEPTH = 40


SCRATCH_ROOT = [None]   # set by the session: the per-run scratch directory name is not part of any value


def _unroot(text):
    r = SCRATCH_ROOT[0]
    if r and r in text:
        return text.replace(r, "<root>")
    return text


def fbits(x) -> str:
    x = float(x)
    if x != x:
        return "nan"
    return struct.pack(">d", x).hex()


def canon(obj, numeric=False, _depth=0, _stack=()):
    """_stack: ids of the containers on the current path (cycle guard: a cyclic graph, e.g. a class
    attribute that refers back to its class, must not blow up the walk)."""
    if _depth > MAX_DEPTH:
        return {"s": "<depth>"}
    if _depth > 0 and isinstance(obj, type):
        return {"s": "<class %s>" % obj.__name__}      # classes are expanded only when they are the object asked for
    if not isinstance(obj, (str, bytes, int, float, bool, type(None))):
        if id(obj) in _stack:
            return {"s": "<cycle>"}
        _stack = _stack + (id(obj),)
    d = _depth + 1
    _c = lambda o, n=numeric, dd=d: canon(o, n, dd, _stack)     # noqa: E731
    if obj is None:
        return None
    if isinstance(obj, (bool, numpy.bool_)):
        return bool(obj)
    if isinstance(obj, (int, numpy.integer)):
        return int(obj)
    if isinstance(obj, (float, numpy.floating)):
        return {"f": fbits(obj)}
    if isinstance(obj, complex):
        return {"z": [fbits(obj.real), fbits(obj.imag)]}
    if isinstance(obj, str):
        return {"s": _unroot(obj)}
    if isinstance(obj, bytes):
        return {"b": obj.hex()}
    if isinstance(obj, PurePath):
        return {"s": _unroot(str(obj))}
    if isinstance(obj, numpy.ndarray):
        if obj.ndim == 0:
            return _c(obj.item())
        return [_c(x) for x in obj]
    if pandas is not None and isinstance(obj, pandas.Series):
        return [_c(x) for x in obj.tolist()]
    if pandas is not None and isinstance(obj, pandas.DataFrame):
        return {"d": [[{"s": str(c)}, _c(obj[c])] for c in obj.columns]}
    if isinstance(obj, (list, tuple)):
        return [_c(x) for x in obj]
    if isinstance(obj, (set, frozenset)):
        items = [_c(x) for x in obj]
        return sorted(items, key=lambda c: json.dumps(c, sort_keys=True))
    if isinstance(obj, dict):
        items = sorted(obj.items(), key=lambda kv: repr(kv[0]))
        return {"d": [[_c(k), _c(v)] for k, v in items]}
    if isinstance(obj, (numpy.random.Generator, numpy.random.RandomState)):
        st = obj.bit_generator.state if isinstance(obj, numpy.random.Generator) else obj.get_state(legacy=False)
        return {"o": type(obj).__name__, "v": {"state": {"s": hashlib.sha256(repr(st).encode()).hexdigest()[:24]}}}
    if isinstance(obj, _random.Random):
        return {"o": "random.Random", "v": {"state": {"s": hashlib.sha256(repr(obj.getstate()).encode()).hexdigest()[:24]}}}
    if isinstance(obj, type):
        out = {}
        for k in sorted(vars(obj)):
            if k.startswith("__"):
                continue
            v = vars(obj)[k]
            if callable(v) or isinstance(v, (classmethod, staticmethod, property)):
                continue
            out[k] = _c(v)
        return {"c": obj.__name__, "v": out}
    if hasattr(obj, "__dict__"):
        out = {}
        for k in sorted(vars(obj)):
            if numeric and k in TEXT_FIELDS_EXCLUDED:
                continue
            out[k] = _c(vars(obj)[k])
        return {"o": type(obj).__name__, "v": out}
    if hasattr(obj, "__slots__"):
        out = {}
        for k in sorted(obj.__slots__):
            if numeric and k in TEXT_FIELDS_EXCLUDED:
                continue
            out[k] = _c(getattr(obj, k, None))
        return {"o": type(obj).__name__, "v": out}
    if callable(obj):
        return {"s": "<callable %s>" % getattr(obj, "__name__", type(obj).__name__)}
    return {"s": "<%s>" % type(obj).__name__}


def cdigest(tree) -> str:
    return hashlib.sha256(
        json.dumps(tree, sort_keys=True, separators=(",", ":")).encode()
    ).hexdigest()[:24]


from .canon_diff import first_diff  # noqa: E402,F401


def plain(obj):
    """Plain JSON value of simple numeric data (for views sent to the lane): floats stay
    floats (json round-trips repr exactly), numpy scalars become Python scalars."""
    if obj is None:
        return None
    if isinstance(obj, (bool, numpy.bool_)):
        return bool(obj)
    if isinstance(obj, (int, numpy.integer)):
        return int(obj)
    if isinstance(obj, (float, numpy.floating)):
        return float(obj)
    if isinstance(obj, str):
        return obj
    if isinstance(obj, PurePath):
        return str(obj)
    if isinstance(obj, numpy.ndarray):
        return [plain(x) for x in obj.tolist()]
    if pandas is not None and isinstance(obj, pandas.Series):
        return [plain(x) for x in obj.tolist()]
    if isinstance(obj, (list, tuple)):
        return [plain(x) for x in obj]
    return {"?": type(obj).__name__}
