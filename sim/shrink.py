"""Minimisation of a failing plan while the same violation signature persists.
Every candidate is re-executed from scratch in new sessions (bounded number of executions)."""
import copy


class Shrinker:
    def __init__(self, mod, ctx, plan, sig, max_execs=250, log=None):
        self.mod = mod
        self.ctx = ctx
        self.best = copy.deepcopy(plan)
        self.sig = sig
        self.execs = 0
        self.max_execs = max_execs
        self.log = log or (lambda s: None)
        self.last = None

    def fails(self, plan):
        if self.execs >= self.max_execs:
            return False
        self.execs += 1
        res = self.mod.execute(self.ctx, copy.deepcopy(plan), {})
        ok = res["violation"] is not None and self.mod.signature(res["violation"]) == self.sig
        if ok:
            self.last = res
        return ok

    def try_plan(self, cand):
        if self.fails(cand):
            self.best = cand
            return True
        return False

    def ddmin_ops(self):
        ops = self.best["ops"]
        n = 2
        while len(ops) >= 1 and self.execs < self.max_execs:
            chunk = max(1, len(ops) // n)
            reduced = False
            for start in range(0, len(ops), chunk):
                cand = copy.deepcopy(self.best)
                cand["ops"] = ops[:start] + ops[start + chunk:]
                if len(cand["ops"]) == len(ops):
                    continue
                if self.try_plan(cand):
                    ops = self.best["ops"]
                    n = max(n - 1, 2)
                    reduced = True
                    break
            if not reduced:
                if chunk == 1:
                    break
                n = min(len(ops), n * 2)
        self.log("ops -> %d (execs %d)" % (len(self.best["ops"]), self.execs))

    def apply_simplifiers(self):
        changed = False
        for f in self.mod.simplifiers(self.best):
            if self.execs >= self.max_execs:
                break
            try:
                cand = f(copy.deepcopy(self.best))
            except Exception as e:      # a simplifier that does not apply must never break the report
                self.log("simplifier %s skipped: %s: %s" % (getattr(f, "__name__", "?"), type(e).__name__, e))
                continue
            if cand is None or cand == self.best:
                continue
            if self.try_plan(cand):
                changed = True
        return changed

    def run(self):
        self.ddmin_ops()
        rounds = 0
        while self.execs < self.max_execs and rounds < 3:
            rounds += 1
            if not self.apply_simplifiers():
                break
            self.ddmin_ops()
        return self.best
