"""Lane-side generation of membrane directories (explicit specs -> files).  Pure Python,
no library import: a world is data in the run plan, so a replay needs no PRNG."""
import math
import os
import shutil

from .common import REPO

MIXTURES = {
    "H2O_MeOH": ("H2O", "MeOH"),
    "H2O_EtOH": ("H2O", "EtOH"),
    "H2O_iPOH": ("H2O", "iPOH"),
    "H2O_AceticAcid": ("H2O", "AceticAcid"),
    "EtOH_ETBE": ("EtOH", "ETBE"),
    "MeOH_Toluene": ("MeOH", "Toluene"),
    "MeOH_MTBE": ("MeOH", "MTBE"),
    "MeOH_DMC": ("MeOH", "DMC"),
}
MW = {
    "H2O": 18.02, "MeOH": 32.04, "EtOH": 46.07, "iPOH": 60.1, "MTBE": 88.15, "ETBE": 102.17,
    "DMC": 90.08, "Toluene": 92.14, "AceticAcid": 60.05,
}
R = 8.314462

FIXTURES = {
    "RomakonPM_102": {
        "mixture": "H2O_EtOH", "has_ideal": True, "ideal_temps": [313.15, 323.15, 334.15],
        "sets": [{"name": "h2o_etoh", "n_curves": 1, "temps": [313.15], "x_lo": 0.05, "x_hi": 0.92, "n_points": 6}],
    },
    "Pervap_4101": {
        "mixture": "H2O_EtOH", "has_ideal": False, "ideal_temps": [],
        "sets": [{"name": "h2o_etoh_initial_feed_15", "n_curves": 1, "temps": [368.15], "x_lo": 0.008, "x_hi": 0.15, "n_points": 10}],
    },
    "Pervap_4100": {
        "mixture": "H2O_EtOH", "has_ideal": False, "ideal_temps": [],
        "sets": [
            {"name": "h2o_etoh_initial_feed_15", "n_curves": 1, "temps": [368.15], "x_lo": 0.008, "x_hi": 0.15, "n_points": 10},
            {"name": "h2o_etoh_initial_feed_50", "n_curves": 1, "temps": [368.15], "x_lo": 0.024, "x_hi": 0.47, "n_points": 7},
        ],
    },
    "Pervap_2510": {
        "mixture": "H2O_iPOH", "has_ideal": False, "ideal_temps": [],
        "sets": [{"name": "h2o_ipoh", "n_curves": 5, "temps": [333.15, 343.15, 353.15, 363.15, 373.15], "x_lo": 0.03, "x_hi": 0.15, "n_points": 22}],
    },
    "Chang_et_al_1998": {
        "mixture": "H2O_EtOH", "has_ideal": False, "ideal_temps": [],
        "sets": [{"name": "h2o_etoh", "n_curves": 4, "temps": [343.15, 351.15, 359.15, 363.15], "x_lo": 0.004, "x_hi": 0.08, "n_points": 19}],
    },
}

DC_COLUMNS = "curve_id,membrane_name,mixture,feed_temperature,permeate_temperature,permeate_pressure,composition,composition_type,partial_flux_1,partial_flux_2,permeance_1,permeance_2,units,comment"
IE_COLUMNS = "name,temperature,component,activation_energy,permeance,units,comment"

UNIT_FACTORS = {"GPU": 3.35e-10, "SI": 1.0}


def kg_to_units(value, units, mw):
    """kg/(m2*h*kPa) -> units (independent re-statement of the conversion table)."""
    if units == "kg/(m2*h*kPa)":
        return value
    si = value * (1.0 / (mw * 3.6e3))
    return si / UNIT_FACTORS[units]


def units_to_kg(value, units, mw):
    if units == "kg/(m2*h*kPa)":
        return value
    si = value * UNIT_FACTORS[units]
    return si / (1.0 / (mw * 3.6e3))


def to_weight(p, ctype, mw1, mw2):
    if ctype == "weight":
        return p
    return (mw1 * p) / (mw1 * p + mw2 * (1 - p))


def rnd(rng, lo, hi, digits=6):
    return round(rng.uniform(lo, hi), digits)


def logu(rng, lo, hi, digits=6):
    v = math.exp(rng.uniform(math.log(lo), math.log(hi)))
    return float("%.*g" % (digits, v))


def synth_membrane(rng, dirname, want_ideal=None, n_sets=None, mixture=None):
    mix = mixture or rng.choice(sorted(MIXTURES))
    c1, c2 = MIXTURES[mix]
    t0 = rnd(rng, 303.15, 343.15, 2)
    # ground truth (kg units): P_i(x, T) = A_i * exp(k_i x - E_i/R (1/T - 1/t0))
    A = [logu(rng, 2e-3, 4e-2), logu(rng, 1e-5, 4e-3)]
    k = [rnd(rng, -2.0, 2.0, 3), rnd(rng, -1.0, 3.0, 3)]
    E = [rnd(rng, 8000, 45000, 0), rnd(rng, 15000, 90000, 0)]

    def perm(i, x, T):
        return A[i] * math.exp(k[i] * x - E[i] / R * (1.0 / T - 1.0 / t0))

    has_ideal = (rng.random() < 0.7) if want_ideal is None else want_ideal
    ideal_rows, ideal_temps, ea_stated = [], [], True
    if has_ideal:
        n_exp = rng.choice([1, 2, 2, 3, 4])
        rng.random()
        ea_stated = True   # a blank activation_energy cell loads as NaN (not None) and poisons get_permeance: input handling, not a C17/C20 matter
        ideal_temps = sorted({round(t0 + 10.0 * j + rnd(rng, 0, 4, 2), 2) for j in range(n_exp)})
        units = rng.choice(["kg/(m2*h*kPa)", "kg/(m2*h*kPa)", "GPU", "SI"])
        for ci, comp in enumerate((c1, c2)):
            for T in ideal_temps:
                val = kg_to_units(perm(ci, 0.5, T) * rnd(rng, 0.97, 1.03, 4), units, MW[comp])
                ideal_rows.append(
                    [dirname, T, comp, (E[ci] if ea_stated else ""), float("%.9g" % val), units, "synthetic"]
                )
    sets = []
    ns = n_sets if n_sets is not None else rng.choice([1, 1, 2])
    for si in range(ns):
        n_curves = rng.choice([1, 2, 3, 4])
        basis = rng.choice(["weight", "weight", "molar"])
        units = rng.choice(["kg/(m2*h*kPa)", "kg/(m2*h*kPa)", "GPU", "SI"])
        given = rng.choice(["permeances", "permeances", "fluxes", "both"])
        perm_mode = rng.choice(["vacuum", "vacuum", "vacuum", "pressure", "temperature"]) if given != "permeances" else "vacuum"
        x_lo = rnd(rng, 0.02, 0.25, 4)
        x_hi = round(x_lo + rnd(rng, 0.15, 0.5, 4), 4)
        temps = sorted({round(t0 + 8.0 * j + rnd(rng, 0, 5, 2), 2) for j in range(n_curves)})
        rows = []
        for cj, T in enumerate(temps):
            npts = rng.randint(3, 8)
            for pj in range(npts):
                x = round(x_lo + (x_hi - x_lo) * pj / (npts - 1) + rnd(rng, -0.004, 0.004, 5), 6)
                noise = [rnd(rng, 0.97, 1.03, 4), rnd(rng, 0.97, 1.03, 4)]
                p1, p2 = perm(0, x, T) * noise[0], perm(1, x, T) * noise[1]
                pt = "" if perm_mode != "temperature" else round(T - 60.0, 2)
                pp = "" if perm_mode != "pressure" else 0.5
                f1 = f2 = v1 = v2 = u = ""
                if given in ("fluxes", "both"):
                    # any positive numbers are valid fluxes; keep them smooth
                    f1 = float("%.9g" % (p1 * 40.0 * x + 1e-4))
                    f2 = float("%.9g" % (p2 * 60.0 * (1 - x) + 1e-6))
                if given in ("permeances", "both"):
                    v1 = float("%.9g" % kg_to_units(p1, units, MW[c1]))
                    v2 = float("%.9g" % kg_to_units(p2, units, MW[c2]))
                    u = units
                rows.append(["curve %d" % cj, dirname, mix, T, pt, pp, x, basis, f1, f2, v1, v2, u, "synthetic set %d" % si])
        mw1, mw2 = MW[c1], MW[c2]
        sets.append(
            {
                "name": "set_%d" % si, "rows": rows, "n_curves": len(temps), "temps": temps, "basis": basis,
                "x_lo": round(to_weight(x_lo, basis, mw1, mw2), 4), "x_hi": round(to_weight(x_hi, basis, mw1, mw2), 4),
                "units": units, "given": given, "perm_mode": perm_mode, "n_points": len(rows),
            }
        )
    return {
        "dir": dirname, "synthetic": True, "mixture": mix, "has_ideal": has_ideal, "ideal_temps": ideal_temps,
        "ea_stated": ea_stated, "ideal_rows": ideal_rows, "t0": t0,
        "sets": sets,
    }


def fixture_membrane(name, dirname):
    info = FIXTURES[name]
    return {
        "dir": dirname, "synthetic": False, "from": name, "mixture": info["mixture"], "has_ideal": info["has_ideal"],
        "ideal_temps": list(info["ideal_temps"]), "ea_stated": True, "t0": (info["ideal_temps"] or [info["sets"][0]["temps"][0]])[0],
        "sets": [dict(s) for s in info["sets"]],
    }


def _cell(v):
    if isinstance(v, float):
        return repr(v)
    return str(v)


def materialise_membrane(root, m, repo=None):
    """Write one membrane directory of the plan under root (lane side, real file system)."""
    repo = repo or REPO
    dst = os.path.join(root, m["dir"])
    if not m.get("synthetic"):
        src = os.path.join(repo, "tests", "default_membranes", m["from"])
        os.makedirs(dst)
        for sub in ("ideal_experiments.csv",):
            if os.path.exists(os.path.join(src, sub)):
                shutil.copyfile(os.path.join(src, sub), os.path.join(dst, sub))
        os.makedirs(os.path.join(dst, "diffusion_curve_sets"))
        for f in sorted(os.listdir(os.path.join(src, "diffusion_curve_sets"))):
            if f.endswith(".csv"):
                shutil.copyfile(os.path.join(src, "diffusion_curve_sets", f), os.path.join(dst, "diffusion_curve_sets", f))
        return
    os.makedirs(os.path.join(dst, "diffusion_curve_sets"))
    if m["has_ideal"]:
        with open(os.path.join(dst, "ideal_experiments.csv"), "w") as fh:
            fh.write(IE_COLUMNS + "\n")
            for row in m["ideal_rows"]:
                fh.write(",".join(_cell(v) for v in row) + "\n")
    for s in m["sets"]:
        with open(os.path.join(dst, "diffusion_curve_sets", s["name"] + ".csv"), "w") as fh:
            fh.write(DC_COLUMNS + "\n")
            for row in s["rows"]:
                fh.write(",".join(_cell(v) for v in row) + "\n")


def membrane_meta(m):
    """What generators need to know about a membrane (no bulky rows)."""
    return {
        "dir": m["dir"], "mixture": m["mixture"], "has_ideal": m["has_ideal"], "ideal_temps": m["ideal_temps"],
        "ea_stated": m.get("ea_stated", True), "t0": m["t0"],
        "sets": [
            {k: s[k] for k in ("name", "n_curves", "temps", "x_lo", "x_hi", "n_points") if k in s} for s in m["sets"]
        ],
    }
