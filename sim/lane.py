"""Lane-side process plumbing: zygotes and sessions.  Pure Python; never imports the library."""
import os
import signal
import socket
import subprocess
import sys
import tempfile
import shutil

from .common import PYTHON, REPO, VERIF, PeerGone, PeerTimeout, recv_msg, send_msg

OP_TIMEOUT_S = 720


class HarnessError(Exception):
    pass


class Zygote:
    def __init__(self, hashseed, errlog="-", repo=None, label="", wait=True):
        a, b = socket.socketpair()
        env = {
            "PATH": os.environ.get("PATH", "/usr/bin:/bin"),
            "HOME": os.environ.get("HOME", "/root"),
            "PYTHONHASHSEED": str(hashseed),
            "PYTHONPATH": (repo or REPO),
            "PYTHONDONTWRITEBYTECODE": "1",
            "MPLBACKEND": "Agg",
            "OPENBLAS_NUM_THREADS": "1",
            "OMP_NUM_THREADS": "1",
            "MKL_NUM_THREADS": "1",
            "LC_ALL": "C.UTF-8",
            "TZ": "UTC",
        }
        self.hashseed = hashseed
        self.label = label
        self.proc = subprocess.Popen(
            [PYTHON, os.path.join(VERIF, "sim", "zygote.py"), str(b.fileno()), errlog],
            pass_fds=[b.fileno()], env=env, cwd="/", stdin=subprocess.DEVNULL,
            stdout=subprocess.DEVNULL, stderr=subprocess.DEVNULL, close_fds=True,
            start_new_session=True,      # own process group: sessions (forked children) can be killed with the zygote
        )
        b.close()
        self.sock = a
        self.errlog = errlog
        self.session = None
        self.info = None
        if wait:
            self.wait_ready()

    def kill_group(self):
        """Kill the zygote and every session it forked (a stuck session must never outlive its lane)."""
        try:
            os.killpg(self.proc.pid, signal.SIGKILL)
        except Exception:
            pass
        try:
            self.proc.kill()
        except Exception:
            pass

    def wait_ready(self):
        if self.info is not None:
            return
        try:
            self.info = recv_msg(self.sock, 180)
        except (PeerGone, PeerTimeout) as e:
            self.proc.kill()
            raise HarnessError("zygote %s did not start (%s); see %s" % (self.label, type(e).__name__, self.errlog))
        if "ready" not in self.info:
            raise HarnessError("zygote %s: unexpected hello %r" % (self.label, self.info))

    def fork(self, init):
        if self.session is not None and self.session.alive:
            raise HarnessError("one live session per zygote")
        msg = dict(init)
        msg["cmd"] = "fork"
        send_msg(self.sock, msg)
        try:
            hello = recv_msg(self.sock, OP_TIMEOUT_S)
        except (PeerGone, PeerTimeout) as e:
            self.kill_group()
            raise HarnessError("session did not start: %s" % type(e).__name__)
        if "died" in hello:
            raise HarnessError("session died during start: %r" % (hello,))
        if "harness-error" in hello:
            try:
                recv_msg(self.sock, 30)
            except Exception:
                pass
            raise HarnessError("session world build failed:\n" + hello["harness-error"])
        self.session = Session(self, hello)
        return self.session

    def close(self):
        try:
            if self.session is not None and self.session.alive:
                self.session.close()
        except Exception:
            pass
        try:
            send_msg(self.sock, {"cmd": "quit"})
        except Exception:
            pass
        try:
            self.proc.wait(timeout=5)
        except Exception:
            pass
        self.kill_group()
        try:
            self.sock.close()
        except Exception:
            pass


class Session:
    def __init__(self, zy, hello):
        self.zy = zy
        self.pid = hello["session"]
        self.hello = hello
        self.alive = True
        self.n_ops = 0

    def _recv(self, timeout=OP_TIMEOUT_S):
        try:
            return recv_msg(self.zy.sock, timeout)
        except PeerTimeout:
            try:
                os.kill(self.pid, signal.SIGKILL)
            except Exception:
                pass
            try:
                recv_msg(self.zy.sock, 30)
            except Exception:
                pass
            self.alive = False
            self.zy.kill_group()
            raise HarnessError("session op timed out (wall clock safety net)")
        except PeerGone:
            self.alive = False
            raise HarnessError("zygote connection lost")

    def request(self, msg):
        """Send one request; returns the reply.  A simulated crash yields
        {"kind": "crashed", ..., "died": 137} and marks the session dead."""
        if not self.alive:
            raise HarnessError("request on dead session")
        send_msg(self.zy.sock, msg)
        self.n_ops += 1
        rep = self._recv()
        if "died" in rep:
            self.alive = False
            raise HarnessError("session died unexpectedly: %r" % (rep,))
        if rep.get("kind") == "crashed":
            d = self._recv(60)
            self.alive = False
            rep["died"] = d.get("died")
            if d.get("died") != 137:
                raise HarnessError("crash ended with status %r" % (d,))
        if rep.get("kind") == "harness-error":
            raise HarnessError("session harness error:\n" + rep.get("tb", ""))
        if rep.get("kind") == "timeout":
            raise HarnessError("session op watchdog fired (%s)" % rep.get("where"))
        return rep

    def op(self, op, clock=None, fault=None, listing=None, fresh=False):
        return self.request({"cmd": "fork_op" if fresh else "op", "op": op, "clock": clock, "fault": fault, "listing": listing})

    def query(self, **kw):
        m = dict(kw)
        m["cmd"] = "query"
        return self.request(m)

    def close(self):
        if not self.alive:
            return
        send_msg(self.zy.sock, {"cmd": "exit"})
        d = self._recv(60)
        self.alive = False
        if d.get("died") != 0:
            raise HarnessError("session exit status %r" % (d,))


class LaneCtx:
    """Two zygotes with different hash seeds + scratch root management."""

    def __init__(self, hs_a, hs_b, errdir=None, repo=None, tag="lane"):
        self.errdir = errdir
        ea = os.path.join(errdir, tag + "-A.err") if errdir else "-"
        eb = os.path.join(errdir, tag + "-B.err") if errdir else "-"
        self.A = Zygote(hs_a, ea, repo, "A", wait=False)      # both interpreters import concurrently
        try:
            self.B = Zygote(hs_b, eb, repo, "B", wait=False)
            self.A.wait_ready()
            self.B.wait_ready()
        except BaseException:
            self.A.close()
            raise
        self.repo = repo or REPO
        self.roots = []

    def zy(self, which):
        return self.A if which == "A" else self.B

    def new_root(self):
        root = tempfile.mkdtemp(prefix="pvsim-%d-" % os.getpid())
        root = os.path.realpath(root)
        self.roots.append(root)
        return root

    def drop_root(self, root):
        shutil.rmtree(root, ignore_errors=True)
        if root in self.roots:
            self.roots.remove(root)

    def end_sessions(self):
        for z in (self.A, self.B):
            s = z.session
            if s is not None and s.alive:
                try:
                    s.close()
                except HarnessError:
                    raise
            z.session = None

    def close(self):
        for z in (self.A, self.B):
            try:
                z.close()
            except Exception:
                pass
        for r in list(self.roots):
            self.drop_root(r)


def sweep_stale_roots():
    tmp = tempfile.gettempdir()
    for name in sorted(os.listdir(tmp)):
        if not name.startswith("pvsim-"):
            continue
        parts = name.split("-")
        try:
            pid = int(parts[2] if parts[1] in ("drv", "self") else parts[1])
        except Exception:
            continue
        try:
            os.kill(pid, 0)
            alive = True
        except ProcessLookupError:
            alive = False
        except PermissionError:
            alive = True
        if not alive:
            shutil.rmtree(os.path.join(tmp, name), ignore_errors=True)
