"""Lane-side reference comparisons for C17 (pure Python; its own statement of the unit and
basis conversions, molecular weights as reported by the pristine zygote)."""
import hashlib
import math
import os

REL = 1e-9
KG = "kg/(m2*h*kPa)"
UNIT_FACTORS = {"GPU": 3.35e-10, "SI": 1.0}


def isnone(x):
    return x is None or (isinstance(x, float) and x != x)


def close(a, b, rel=REL):
    if isnone(a) and isnone(b):
        return True
    if isnone(a) or isnone(b):
        return False
    if isinstance(a, str) or isinstance(b, str) or isinstance(a, dict) or isinstance(b, dict):
        return a == b
    a, b = float(a), float(b)
    if a == b:
        return True
    if math.isinf(a) or math.isinf(b):
        return False
    return abs(a - b) <= rel * max(abs(a), abs(b))


def to_weight(p, ctype, mw1, mw2):
    if ctype == "weight":
        return p
    if ctype == "molar":
        return (mw1 * p) / (mw1 * p + mw2 * (1 - p))
    raise ValueError("composition type %r" % (ctype,))


def to_kg(value, units, mw):
    if units == KG:
        return value
    return value * UNIT_FACTORS[units] * (mw * 3.6e3)


class Cmp:
    def __init__(self):
        self.bad = []

    def add(self, field, a, b, note=""):
        if len(self.bad) < 8:
            self.bad.append({"field": field, "original": a, "loaded": b, "note": note})

    def num(self, field, a, b):
        if not close(a, b):
            self.add(field, a, b)

    def series(self, field, a, b, n=None):
        if a is None and b is None:
            return
        if a is None or b is None or not isinstance(a, list) or not isinstance(b, list):
            self.add(field, a if not isinstance(a, list) else "list[%d]" % len(a), b if not isinstance(b, list) else "list[%d]" % len(b), "missing/shape")
            return
        if len(a) != len(b) or (n is not None and len(b) != n):
            self.add(field + "<len>", len(a), len(b))
            return
        for i, (x, y) in enumerate(zip(a, b)):
            if not close(x, y):
                self.add("%s[%d]" % (field, i), x, y)
                return

    def scalar_vs_steps(self, field, orig, loaded):
        """original: per-step list (or scalar); loaded: scalar (or per-step list)."""
        ol = orig if isinstance(orig, list) else [orig]
        ll = loaded if isinstance(loaded, list) else [loaded]
        if len(ll) == 1:
            ll = ll * len(ol)
        if len(ol) == 1:
            ol = ol * len(ll)
        if len(ol) != len(ll):
            self.add(field + "<len>", len(ol), len(ll))
            return
        for i, (x, y) in enumerate(zip(ol, ll)):
            if not close(x, y):
                self.add("%s[%d]" % (field, i), x, y)
                return

    def comps(self, field, a, b, mw, must_be_weight=True):
        if a is None or b is None or len(a) != len(b):
            self.add(field + "<len>", None if a is None else len(a), None if b is None else len(b))
            return
        for i, (x, y) in enumerate(zip(a, b)):
            try:
                wx, wy = to_weight(x[0], x[1], *mw), to_weight(y[0], y[1], *mw)
            except Exception as e:
                self.add("%s[%d]" % (field, i), x, y, "bad type: %s" % e)
                return
            if not close(wx, wy):
                self.add("%s[%d]" % (field, i), x, y, "as mass fraction %r vs %r" % (wx, wy))
                return
            if must_be_weight and y[1] != "weight":
                self.add("%s[%d].type" % (field, i), x[1], y[1], "re-loaded compositions must be mass fractions")
                return

    def permeances(self, field, a, b, mw, must_be_kg=True):
        if a is None and b is None:
            return
        if a is None or b is None or len(a) != len(b):
            self.add(field + "<len>", None if a is None else len(a), None if b is None else len(b))
            return
        for i, (x, y) in enumerate(zip(a, b)):
            for j in (0, 1):
                try:
                    kx, ky = to_kg(x[j][0], x[j][1], mw[j]), to_kg(y[j][0], y[j][1], mw[j])
                except Exception as e:
                    self.add("%s[%d][%d]" % (field, i, j), x[j], y[j], "bad units: %s" % e)
                    return
                if not close(kx, ky):
                    self.add("%s[%d][%d]" % (field, i, j), x[j], y[j], "in kg/(m2*h*kPa): %r vs %r" % (kx, ky))
                    return
                if must_be_kg and y[j][1] != KG:
                    self.add("%s[%d][%d].units" % (field, i, j), x[j][1], y[j][1], "re-loaded permeances must be reported in kg/(m2*h*kPa)")
                    return

    def fn(self, field, a, b):
        if a is None and b is None:
            return
        if a is None or b is None:
            self.add(field, a, b)
            return
        for k in ("n", "m", "alpha"):
            self.num(field + "." + k, a[k], b[k])
        self.series(field + ".a", a["a"], b["a"])
        self.series(field + ".b", a["b"], b["b"])

    def cond(self, field, a, b, mw, with_program):
        if a is None and b is None:
            return
        if a is None or b is None:
            self.add(field, a, b)
            return
        for k in ("area", "T", "amount", "pt", "pp"):
            self.num(field + "." + k, a[k], b[k])
        self.comps(field + ".comp", [a["comp"]], [b["comp"]], mw, must_be_weight=False)
        if with_program:
            pa, pb = a.get("program"), b.get("program")
            if (pa is None) != (pb is None):
                self.add(field + ".program", pa, pb)
            elif pa is not None:
                if pa["type"] != pb["type"]:
                    self.add(field + ".program.type", pa["type"], pb["type"])
                self.series(field + ".program.coefficients", pa["coefficients"], pb["coefficients"])


def cmp_process(orig, loaded, mixtures, safe):
    c = Cmp()
    if orig["mixture"] != loaded["mixture"]:
        c.add("mixture", orig["mixture"], loaded["mixture"])
        return c.bad
    _, mw1, mw2 = mixtures[orig["mixture"]]
    mw = (mw1, mw2)
    n = len(orig["time"])
    for k in ("time", "feed_mass", "feed_temperature", "evap_heat", "cond_heat"):
        c.series(k, orig[k], loaded[k], n)
    c.scalar_vs_steps("permeate_temperature", orig["permeate_temperature"], loaded["permeate_temperature"])
    c.scalar_vs_steps("permeate_pressure", orig["permeate_pressure"], loaded["permeate_pressure"])
    c.comps("feed_compositions", orig["feed_comp"], loaded["feed_comp"], mw)
    c.comps("permeate_composition", orig["perm_comp"], loaded["perm_comp"], mw)
    if orig["flux"] is None or loaded["flux"] is None or len(orig["flux"]) != len(loaded["flux"]):
        if not (orig["flux"] is None and loaded["flux"] is None):
            c.add("partial_fluxes<len>", None if orig["flux"] is None else len(orig["flux"]), None if loaded["flux"] is None else len(loaded["flux"]))
    else:
        for j in (0, 1):
            c.series("partial_fluxes[:][%d]" % j, [f[j] for f in orig["flux"]], [f[j] for f in loaded["flux"]], n)
    c.permeances("permeances", orig["permeance"], loaded["permeance"], mw)
    fo, fl = orig["fits"], loaded["fits"]
    if (fo is None) != (fl is None):
        c.add("permeance_fits", fo, fl)
    elif fo is not None:
        c.fn("permeance_fits[0]", fo[0], fl[0])
        c.fn("permeance_fits[1]", fo[1], fl[1])
    c.cond("initial_conditions", orig["cond"], loaded["cond"], mw, with_program=not safe)
    return c.bad


def cmp_curve(orig, loaded, mixtures):
    c = Cmp()
    if orig["mixture"] != loaded["mixture"]:
        c.add("mixture", orig["mixture"], loaded["mixture"])
        return c.bad
    _, mw1, mw2 = mixtures[orig["mixture"]]
    mw = (mw1, mw2)
    for k in ("T", "pt", "pp"):
        c.num(k, orig[k], loaded[k])
    c.comps("feed_compositions", orig["comps"], loaded["comps"], mw)
    n = len(orig["comps"])
    if orig["flux"] is None or loaded["flux"] is None or len(orig["flux"]) != len(loaded["flux"]):
        if not (orig["flux"] is None and loaded["flux"] is None):
            c.add("partial_fluxes<len>", None if orig["flux"] is None else len(orig["flux"]), None if loaded["flux"] is None else len(loaded["flux"]))
    else:
        for j in (0, 1):
            c.series("partial_fluxes[:][%d]" % j, [f[j] for f in orig["flux"]], [f[j] for f in loaded["flux"]], n)
    c.permeances("permeances", orig["permeance"], loaded["permeance"], mw)
    return c.bad


def cmp_fn(orig, loaded):
    c = Cmp()
    c.fn("function", orig, loaded)
    return c.bad


def cmp_cond(orig, loaded, mixtures_mw=None):
    c = Cmp()
    # a free-standing Conditions has no mixture: compositions compared in their own basis
    for k in ("area", "T", "amount", "pt", "pp"):
        c.num(k, orig[k], loaded[k])
    if orig["comp"][1] != loaded["comp"][1]:
        c.add("comp.type", orig["comp"][1], loaded["comp"][1])
    c.num("comp.p", orig["comp"][0], loaded["comp"][0])
    return c.bad


# ---- directory trees ----------------------------------------------------------------------


def tree_digest(path):
    """Sorted list of (relative name, size, sha256, inode, mtime_ns) of every file below path
    plus (name, 'dir', inode) of directories."""
    out = []
    for dirpath, dirnames, filenames in os.walk(path):
        dirnames.sort()
        rel = os.path.relpath(dirpath, path)
        st = os.stat(dirpath)
        out.append([rel, "dir", st.st_ino])
        for f in sorted(filenames):
            p = os.path.join(dirpath, f)
            st = os.stat(p)
            with open(p, "rb") as fh:
                h = hashlib.sha256(fh.read()).hexdigest()[:20]
            out.append([os.path.normpath(os.path.join(rel, f)), st.st_size, h, st.st_ino, st.st_mtime_ns])
    return out


def tree_diff(a, b):
    da = {x[0]: x for x in a}
    db = {x[0]: x for x in b}
    for k in sorted(set(da) | set(db)):
        if k not in da:
            return "%s appeared" % k
        if k not in db:
            return "%s disappeared" % k
        if da[k] != db[k]:
            x, y = da[k], db[k]
            if x[1] == "dir" or y[1] == "dir":
                return "%s replaced (inode)" % k
            if x[1:3] != y[1:3]:
                return "%s content changed (%s bytes -> %s bytes)" % (k, x[1], y[1])
            return "%s rewritten with identical bytes (inode/mtime changed)" % k
    return None


def list_dirs(path):
    """All directories below path (relative), sorted."""
    out = []
    for dirpath, dirnames, _ in os.walk(path):
        dirnames.sort()
        for d in dirnames:
            out.append(os.path.normpath(os.path.relpath(os.path.join(dirpath, d), path)))
    return sorted(out)
