"""A session: forked child of a zygote.  Builds the run's world from the explicit plan,
then executes operations one by one on request of the lane."""
import os
import random
import signal
import traceback

from . import seams
from .common import recv_msg, send_msg
from .seams import S, OpTimeout, StepBudgetExceeded

OP_WALL_S = 600
EPOCH_NAME_SCAN = 200_000

EXECUTORS = {}


def preload():
    """Import executor modules in the zygote (no modelling call happens at import)."""
    from . import build  # noqa: F401
    from . import exec_c17, exec_c20  # noqa: F401

    EXECUTORS["C17"] = exec_c17.Executor
    EXECUTORS["C20"] = exec_c20.Executor
    EXECUTORS["C16"] = exec_c20.Executor


def _alarm(signum, frame):
    raise OpTimeout()


def resolve_clock(clock):
    """clock: {"start": us, "step": us} or {"collide": dirname, "from": us, "step": us}.
    A 'collide' request is resolved here because only this interpreter knows its hash
    function (PYTHONHASHSEED); the scan is a pure function of (hash seed, from, dirname)."""
    if not clock:
        return {"start": S.clock_start + S.clock_reads * max(S.clock_step, 1) + 1, "step": 1}
    if "collide" in clock:
        target = clock["collide"]
        base = int(clock["from"])
        found = None
        for k in range(1, EPOCH_NAME_SCAN):
            t = seams.EPOCH + seams._dt.timedelta(microseconds=base + k)
            if "process_" + str(hash(t))[0:4] == target:
                found = base + k
                break
        return {"start": found if found is not None else base, "step": int(clock.get("step", 1)),
                "collide_found": found is not None}
    return {"start": int(clock["start"]), "step": int(clock.get("step", 1))}


def run_op(ex, msg):
    op = msg["op"]
    prep = None
    # world objects the op needs are built before faults are armed (frozen build clock)
    S.reset_op(None)
    S.listing = None
    S.set_clock(1_600_000_000_000_000, 0)
    signal.alarm(OP_WALL_S)
    try:
        prep = ex.prepare(op)
    except StepBudgetExceeded:
        signal.alarm(0)
        return {"kind": "skip", "why": "budget during build"}
    except OpTimeout:
        return {"kind": "timeout", "where": "build"}
    except Exception as e:
        signal.alarm(0)
        return {"kind": "skip", "why": "build failed: %s: %s" % (type(e).__name__, str(e)[:200])}
    clock = resolve_clock(msg.get("clock"))
    S.reset_op(msg.get("fault"))
    S.set_clock(clock["start"], clock["step"])
    S.listing = random.Random(msg["listing"]) if msg.get("listing") is not None else None
    try:
        out = ex.execute(op, prep)
    except StepBudgetExceeded:
        out = {"kind": "budget"}
    except OpTimeout:
        out = {"kind": "timeout", "where": "op"}
    except BaseException:
        out = {"kind": "harness-error", "tb": traceback.format_exc()[-3000:]}
    finally:
        signal.alarm(0)
    events, fired = S.events, S.fault_fired
    S.reset_op(None)  # whatever the harness does next (views, digests) is not under fault
    out["events"] = events
    out["clock"] = {"resolved": clock, "reads": S.clock_reads, "log": S.clock_log[:16]}
    out["fault_fired"] = fired
    out["flux_calls_max"] = S.flux_calls_max
    try:
        post = ex.after(op, out)
        if post:
            out.update(post)
    except BaseException:
        out = {"kind": "harness-error", "tb": traceback.format_exc()[-3000:]}
    return out


def serve(sock, init):
    S.root = init.get("root")
    from . import canon as _canon
    _canon.SCRATCH_ROOT[0] = S.root
    S.budget = int(init.get("budget", 5000))
    seams.install_entropy(int(init.get("entropy", 1)))
    signal.signal(signal.SIGALRM, _alarm)

    def on_die(events):
        send_msg(sock, {"kind": "crashed", "events": events,
                        "clock": {"reads": S.clock_reads, "log": S.clock_log[:16]}, "fault_fired": True})

    S.on_die = on_die
    S.set_clock(1_600_000_000_000_000, 0)
    try:
        ex = EXECUTORS[init["prop"]](init)
        hello = {"session": os.getpid(), "world": ex.describe()}
    except BaseException:
        send_msg(sock, {"session": os.getpid(), "harness-error": traceback.format_exc()[-3000:]})
        return
    send_msg(sock, hello)
    while True:
        msg = recv_msg(sock)
        cmd = msg.get("cmd")
        if cmd == "exit":
            return
        if cmd == "op":
            send_msg(sock, run_op(ex, msg))
        elif cmd == "fork_op":
            # fresh-state execution: a grandchild runs exactly one op on the pristine world
            pid = os.fork()
            if pid == 0:
                code = 0
                try:
                    send_msg(sock, run_op(ex, msg))
                except BaseException:
                    code = 71
                finally:
                    seams._REAL["_exit"](code)
            _, status = os.waitpid(pid, 0)
            if status != 0:
                st = -os.WTERMSIG(status) if os.WIFSIGNALED(status) else os.WEXITSTATUS(status)
                send_msg(sock, {"kind": "harness-error", "tb": "fresh-state child died: %r" % st})
        elif cmd == "query":
            try:
                send_msg(sock, ex.query(msg))
            except BaseException:
                send_msg(sock, {"kind": "harness-error", "tb": traceback.format_exc()[-3000:]})
        else:
            send_msg(sock, {"kind": "harness-error", "tb": "unknown cmd %r" % (cmd,)})
