"""Shared, dependency-free helpers for the simulator (driver, lanes, zygotes, sessions).

Nothing in here may read a clock, the environment's randomness or iterate an unordered
container: every choice of a simulated run derives from integers produced by `derive`.
"""
import hashlib
import json
import os
import random
import socket
import struct
import select

VERIF = os.path.dirname(os.path.dirname(os.path.abspath(__file__)))
REPO = os.environ.get("VERIF_REPO", "/repo")
PYTHON = os.environ.get("VERIF_PYTHON", "/venv/bin/python")
N_LANES = 16


def derive(*parts) -> int:
    h = hashlib.sha256("|".join(str(p) for p in parts).encode()).digest()
    return int.from_bytes(h[:8], "big")


def stream(run_seed: int, name: str) -> random.Random:
    return random.Random(derive(run_seed, name))


def hash_seed_for(verif_seed: int, lane: int, which: str) -> int:
    # PYTHONHASHSEED must be in [0, 4294967295]; 0 disables randomisation, avoid it.
    a = derive("hashseed", verif_seed, lane, "A") % 4294967290 + 1
    if which == "A":
        return a
    b = derive("hashseed", verif_seed, lane, "B") % 4294967290 + 1
    if b == a:
        b = a % 4294967290 + 1
    return b


def jdump(obj) -> bytes:
    return json.dumps(obj, allow_nan=True, separators=(",", ":")).encode()


def digest(obj) -> str:
    return hashlib.sha256(
        json.dumps(obj, allow_nan=True, sort_keys=True, separators=(",", ":")).encode()
    ).hexdigest()[:24]


class PeerGone(Exception):
    pass


class PeerTimeout(Exception):
    pass


def send_msg(sock: socket.socket, obj) -> None:
    data = jdump(obj)
    sock.sendall(struct.pack(">I", len(data)) + data)


def _recv_exact(sock: socket.socket, n: int, deadline_s):
    buf = bytearray()
    while len(buf) < n:
        if deadline_s is not None:
            r, _, _ = select.select([sock], [], [], deadline_s)
            if not r:
                raise PeerTimeout()
        chunk = sock.recv(n - len(buf))
        if not chunk:
            raise PeerGone()
        buf += chunk
    return bytes(buf)


def recv_msg(sock: socket.socket, timeout_s=None):
    """timeout_s is a real wall-clock safety net of the harness only (a hung child is a
    harness error, never a verdict); nothing simulated depends on it."""
    hdr = _recv_exact(sock, 4, timeout_s)
    (n,) = struct.unpack(">I", hdr)
    return json.loads(_recv_exact(sock, n, timeout_s))
