"""C17: plan generation (pure function of (VERIF_SEED, run index)), plan execution against
real save/load code over simulated storage/clock/process lifetime, reference model, oracles."""
import copy
import os

from . import oracle_c17 as oc
from . import worldgen as wg
from .common import derive, digest, stream
from .lane import HarnessError

PROP = "C17"
T0_US = 1_750_000_000_000_000          # 2025-06
DECADE_US = 10 * 365 * 86400 * 1_000_000
FAULT_KINDS = ["crash-call", "crash-byte", "eio-open", "eacces-open", "emfile-open", "enospc-mkdir", "eio-mkdir", "enospc-write", "eio-call"]
CLOCK_POLICIES = ["mono", "frozen", "rewind", "collide"]


# =========================================================================================
# generation
# =========================================================================================

def _cond(w, T, comp, steps, dt, noniso=False):
    area = wg.rnd(w, 0.01, 0.5, 4)
    amount = round(max(0.5, 25 * area * dt * steps * w.uniform(1, 3)), 4)
    mode = w.choice(["none", "none", "pp", "pt", "pp0"])
    pt = pp = None
    if mode == "pp":
        pp = wg.rnd(w, 0.0, 0.4, 3)
    elif mode == "pp0":
        pp = 0
    elif mode == "pt":
        pt = round(T - w.uniform(55, 85), 2)
    program = None
    if noniso and w.random() < 0.5:
        kind = w.choice(["polynomial", "polynomial", "exponential", "logarithmic"])
        if kind == "polynomial":
            coeffs = [T, wg.rnd(w, -1.5, 1.5, 3)] + ([wg.rnd(w, -0.05, 0.05, 4)] if w.random() < 0.3 else [])
        elif kind == "exponential":
            coeffs = [T, 0.0, wg.rnd(w, -0.004, 0.004, 5)]
        else:
            coeffs = [T, 2.718281828459045, wg.rnd(w, -0.01, 0.02, 5)]
        program = {"coefficients": coeffs, "type": kind}
    return {"area": area, "T": T, "amount": amount, "comp": comp, "pt": pt, "pp": pp, "program": program}


def _feed_comp(w, lo, hi, allow_molar=True):
    x = wg.rnd(w, lo + 0.1 * (hi - lo), hi - 0.1 * (hi - lo), 5)
    return [x, "molar" if (allow_molar and w.random() < 0.25) else "weight"]


def _orders(w, item, multi, n_points=99):
    # default orders (None) make find_best_fit search a grid that grows with the number of
    # points (seconds per fit for > 9 points); model building is not what C17 is about
    if w.random() < 0.6 or n_points > 9:
        item["n_first"] = w.choice([0, 1, 1, 2])
        item["n_second"] = w.choice([0, 1, 1])
        if multi:
            item["m_first"] = w.choice([0, 0, 1])
            item["m_second"] = w.choice([0, 0, 1])
    if multi and w.random() < 0.25:
        item["include_zero"] = True


def gen_process_item(w, m):
    """One process pool item compatible with membrane meta m (or None)."""
    models = []
    if m["has_ideal"]:
        models += ["ideal_iso", "ideal_noniso"]
    for s in m["sets"]:
        if s["n_curves"] > 1 or m["has_ideal"]:
            models += ["nonideal_iso", "nonideal_noniso"]
            break
        models += ["nonideal_iso"]
        break
    if not models:
        return None
    model = w.choice(models)
    steps = w.choice([1, 2, 3, 4, 5, 6, 8, 10, 12]) if w.random() < 0.93 else w.choice([30, 60])
    if model.startswith("ideal") and w.random() < 0.06:
        steps = w.choice([101, 300, 600, 600])          # long models are cheap for the ideal generators; size thresholds exist in real code
    dt = wg.rnd(w, 0.05, 0.5, 3) if steps <= 12 else (wg.rnd(w, 0.02, 0.08, 3) if steps <= 60 else wg.rnd(w, 0.002, 0.008, 4))
    item = {"kind": "process", "model": model, "membrane": m["dir"], "mixture": m["mixture"], "steps": steps, "dt": dt,
            "calc": "UNIQUAC" if w.random() < 0.15 else "NRTL"}
    if w.random() < 0.2:
        item["precision"] = w.choice([1e-3, 1e-4, 1e-6])
    if model.startswith("ideal"):
        temps = m["ideal_temps"]
        if len(temps) >= 2 or m.get("ea_stated", True):
            T = round(w.uniform(min(temps) - 5, max(temps) + 15), 2) if w.random() < 0.7 else w.choice(temps)
        else:
            T = w.choice(temps)
        comp = _feed_comp(w, 0.05, 0.95)
    else:
        cands = [s for s in m["sets"] if s["n_curves"] > 1 or m["has_ideal"] or model == "nonideal_iso"]
        s = w.choice(cands)
        item["set"] = s["name"]
        multi = s["n_curves"] > 1
        if not multi and not m["has_ideal"]:
            T = s["temps"][0]
        elif w.random() < 0.3:
            T = w.choice(s["temps"])
        else:
            T = round(w.uniform(min(s["temps"]) - 3, max(s["temps"]) + 8), 2)
        comp = _feed_comp(w, s["x_lo"], s["x_hi"])
        if w.random() < 0.35:
            item["init_perm"] = [[wg.logu(w, 1e-3, 5e-2), None], [wg.logu(w, 1e-6, 1e-3), None]]
            if w.random() < 0.3:
                u = w.choice(["GPU", "SI"])
                c1, c2 = wg.MIXTURES[m["mixture"]]
                item["init_perm"] = [[wg.kg_to_units(item["init_perm"][0][0], u, wg.MW[c1]), u],
                                     [wg.kg_to_units(item["init_perm"][1][0], u, wg.MW[c2]), u]]
        _orders(w, item, multi, s.get("n_points", 99))
    item["cond"] = _cond(w, T, comp, steps, dt, noniso=model.endswith("noniso"))
    if w.random() < 0.08:
        item["comments"] = w.choice(["D:\\pv\\romakon\\run7\\", 'note: "final", see p. 3', "line one\nline two", "50 % EtOH; 60 \u00b0C"])   # the public comments attribute, set by the user
    if w.random() < (0.5 if steps > 100 else 0.12):
        # the same model with its permeances re-expressed in other units through the public
        # Permeance.convert (a ProcessModel is a plain data class; units are a persisted column)
        item["reexpress"] = w.choice(["GPU", "SI"])
        if item["reexpress"] == "GPU" and w.random() < 0.4:
            item["reexpress_whole"] = True     # GPU values noted as whole numbers (Python ints)
    elif item["cond"].get("pt") is not None and steps >= 3 and w.random() < 0.25:
        # condensation heat unknown for some steps: None is a legal entry of that per-step list
        item["blank_heats"] = sorted(w.sample(range(steps), w.randint(1, max(1, steps // 2))))
    elif w.random() < 0.08:
        # a two-stage batch kept as ONE model: the second stage's clock restarts at 0 h
        item["second_stage"] = {"steps": w.choice([1, 2, 3, 5]), "dt": wg.rnd(w, 0.05, 0.5, 3),
                                "comp": [wg.rnd(w, max(0.02, comp[0] - 0.05), min(0.98, comp[0] + 0.05), 5), "weight"]}
    if item["cond"]["pp"] and not model.startswith("ideal") :
        item["cond"]["pp"] = min(item["cond"]["pp"], 0.1)
    r = w.random()
    if r < 0.05:
        # initial_conditions is an Optional field (default None): a model kept without them (binary mode only:
        # the JSON mode of the code under test cannot write None conditions and raises)
        item["ic_none"] = True
    elif r < 0.17:
        # one Conditions object reused for a sweep: the generators keep the caller's object as
        # model.initial_conditions, and the caller changes its public attributes for the next run before the
        # collected models are saved - the table and the side file then legitimately state different things
        ed = {}
        for key in w.sample(["pt", "pp", "T", "amount", "area", "comp"], w.randint(1, 3)):
            if key == "pt":
                ed["pt"] = None if (item["cond"].get("pt") is not None and w.random() < 0.5) else round(w.uniform(200.0, 290.0), 2)
            elif key == "pp":
                ed["pp"] = None if (item["cond"].get("pp") is not None and w.random() < 0.5) else wg.rnd(w, 0.01, 2.0, 3)
            elif key == "T":
                ed["T"] = round(T + w.choice([-1, 1]) * w.uniform(0.5, 20.0), 2)
            elif key == "amount":
                ed["amount"] = wg.rnd(w, 0.5, 50.0, 3)
            elif key == "area":
                ed["area"] = wg.rnd(w, 0.001, 2.0, 4)
            else:
                ed["comp"] = [wg.rnd(w, 0.02, 0.98, 4), w.choice(["weight", "molar"])]
        item["cond_edit"] = ed
    if w.random() < 0.10:
        # per-step fields held in another sequence type (a ProcessModel is a plain data class; load() itself hands out
        # pandas Series): tuples, numpy arrays, Series with the default index, indexed by time, or a slice's labels
        kinds = {}
        for fld in w.sample(["feed_temperature", "time", "permeate_temperature", "permeate_pressure", "feed_mass",
                             "feed_evaporation_heat", "permeate_condensation_heat"], w.randint(1, 4)):
            kinds[fld] = w.choice(["tuple", "array", "series", "series_time", "series_shift"])
        item["seq_types"] = kinds
    return item


def gen_curve_item(w, m):
    hows = ["hand-flux", "hand-perm"]
    if m["has_ideal"]:
        hows += ["ideal", "ideal"]
    if m["sets"]:
        hows += ["nonideal"]
    how = w.choice(hows)
    if how == "ideal":
        temps = m["ideal_temps"]
        T = w.choice(temps) if (len(temps) < 2 and not m.get("ea_stated", True)) else round(w.uniform(min(temps) - 5, max(temps) + 10), 2)
        n = w.randint(2, 8)
        basis = w.choice(["weight", "weight", "molar"])
        comps = [[round(0.05 + 0.9 * (j + w.random() * 0.5) / n, 5), basis] for j in range(n)]
        if w.random() < 0.25:
            comps[w.choice([0, -1])][0] = w.choice([0.0, 1.0])        # a curve over the full range ends at a pure component (zero flux of the other one)
        mode = w.choice(["none", "none", "pp", "pt"])
        return {"kind": "curve", "how": "ideal", "membrane": m["dir"], "mixture": m["mixture"], "T": T, "comps": comps,
                "pt": round(T - w.uniform(55, 85), 2) if mode == "pt" else None,
                "pp": wg.rnd(w, 0, 0.3, 3) if mode == "pp" else None,
                "calc": "UNIQUAC" if w.random() < 0.15 else "NRTL"}
    if how == "nonideal":
        cands = [s for s in m["sets"] if s["n_curves"] > 1 or m["has_ideal"]]
        single_ok = [s for s in m["sets"] if s["n_curves"] == 1]
        if cands:
            s = w.choice(cands)
            T = round(w.uniform(min(s["temps"]) - 3, max(s["temps"]) + 8), 2)
        elif single_ok:
            s = w.choice(single_ok)
            T = s["temps"][0]
        else:
            return None
        steps = w.randint(1, 8)
        x0 = wg.rnd(w, s["x_lo"], s["x_hi"], 5)
        dx = wg.rnd(w, 0.002, 0.02, 4) * w.choice([1, -1])
        if not (0.001 < x0 + dx * (steps + 2) < 0.999):
            dx = -dx
        if not (0.001 < x0 + dx * (steps + 2) < 0.999):
            steps = 1
            dx = 0.001
        item = {"kind": "curve", "how": "nonideal", "membrane": m["dir"], "mixture": m["mixture"], "set": s["name"], "T": T,
                "comp": [x0, "weight"], "dx": dx, "steps": steps, "pt": None, "pp": None}
        _orders(w, item, s["n_curves"] > 1, s.get("n_points", 99))
        return item
    mix = m["mixture"] if w.random() < 0.5 else w.choice(sorted(wg.MIXTURES))
    n = w.randint(1, 7)
    basis = w.choice(["weight", "molar"])
    comps = sorted(round(w.uniform(0.01, 0.99), 6) for _ in range(n))
    T = wg.rnd(w, 293.15, 373.15, 2)
    item = {"kind": "curve", "how": "hand", "mixture": mix, "T": T, "comps": [[x, basis] for x in comps],
            "membrane_name": w.choice(["hand made", "M-1", "x", 'M,1 "q"']), "comments": w.choice([None, "made by hand", "a, b", 'say "hi", twice', "D:\\pv\\run7\\", "tab\there"])}
    if how == "hand-flux":
        item["fluxes"] = [[wg.logu(w, 1e-9, 1e3, 9), wg.logu(w, 1e-9, 1e3, 9)] for _ in comps]
        mode = w.choice(["none", "none", "pp", "pt"])
        item["pt"] = round(T - w.uniform(40, 80), 2) if mode == "pt" else None
        if mode == "pt" and w.random() < 0.3:
            item["pt"] = w.choice([77.15, 194.65, 150.0])          # liquid-nitrogen / dry-ice traps
        item["pp"] = wg.logu(w, 1e-3, 1.0, 4) if mode == "pp" else None
        if item["pp"] is not None and item["pp"] < 3e-3:
            item["pp"] = 0.0          # ideal vacuum stated as a pressure: 0.0 is a value, not "absent" (no extra draw: the stream is unchanged)
    else:
        item["units"] = w.choice(["kg/(m2*h*kPa)", "GPU", "SI", None])
        scale = {"GPU": (1e-1, 1e5), "SI": (1e-11, 1e-5)}.get(item["units"], (1e-9, 1e3))
        item["permeances"] = [[wg.logu(w, scale[0], scale[1], 9), wg.logu(w, scale[0], scale[1], 9)] for _ in comps]
        # a permeate condition is a legal (stored) attribute of a permeance-built curve too
        mode = w.choice(["none", "none", "pp", "pt"])
        item["pt"] = round(T - w.uniform(40, 80), 2) if mode == "pt" else None
        item["pp"] = wg.logu(w, 1e-3, 1.0, 4) if mode == "pp" else None
        if item["pp"] is not None and item["pp"] < 3e-3:
            item["pp"] = 0.0          # ideal vacuum stated as a pressure: 0.0 is a value, not "absent" (no extra draw: the stream is unchanged)
    return item


def gen_fn_item(w, membranes):
    if w.random() < 0.7 or not any(m["sets"] for m in membranes):
        n, mm = w.randint(0, 3), w.randint(0, 3)
        style = w.choice(["array", "list", "list", "default"])
        if style == "default":
            return {"kind": "fn", "how": "synthetic", "n": 0, "m": 0, "alpha": wg.logu(w, 1e-9, 1e3, 9), "a": [0], "b": [0], "array": False}
        return {"kind": "fn", "how": "synthetic", "n": n, "m": mm, "alpha": wg.logu(w, 1e-9, 1e3, 9) * w.choice([1, 1, -1]),
                "a": [round(w.uniform(-30, 30), 9) for _ in range(n)],
                "b": [round(w.uniform(-9000, 9000), 6) for _ in range(mm + 1)], "array": style == "array"}
    m = w.choice([m for m in membranes if m["sets"]])
    s = w.choice(m["sets"])
    return {"kind": "fn", "how": "fit", "membrane": m["dir"], "set": s["name"], "comp": w.choice([0, 1]),
            "n": w.randint(0, 2), "m": w.randint(0, 1) if s["n_curves"] > 1 else 0, "best": w.random() < 0.3}


def gen_cond_item(w):
    T = wg.rnd(w, 293.15, 373.15, 2)
    c = _cond(w, T, [wg.rnd(w, 0, 1, 6), w.choice(["weight", "molar"])], w.randint(1, 12), 0.1, noniso=True)
    if w.random() < 0.3:
        c["pt"], c["pp"] = round(T - 50, 2), 0.2      # contradictory specification is still storable
    if w.random() < 0.2:
        c["amount"] = w.choice([1, 12, 3])           # ints
    return {"kind": "cond", "cond": c}


def gen_world(w):
    names = sorted(wg.FIXTURES)
    picked = []
    if w.random() < 0.8:
        picked.append("RomakonPM_102")
    for nme in w.sample(names, w.randint(0, 2)):
        if nme not in picked:
            picked.append(nme)
    n_syn = w.choice([0, 1, 1, 2]) if picked else w.choice([1, 2])
    membranes = []

    def dirname(k):
        # directory names a user might really have: brackets, spaces, parentheses, '#', '&' (no commas: the name goes into CSV cells)
        if w.random() < 0.3:
            return w.choice(["m%d[2]", "m %d (copy)", "m%d#b", "m%d & co", "m%d[a-c]", "M%d{x}"]) % k
        return "m%d" % k

    for nme in picked:
        membranes.append(wg.fixture_membrane(nme, dirname(len(membranes))))
    for _ in range(n_syn):
        membranes.append(wg.synth_membrane(w, dirname(len(membranes))))
    if len(membranes) >= 2 and w.random() < 0.08:
        # results/ of one membrane is a symbolic link to the results/ of another (shared result store)
        i, j = w.sample(range(len(membranes)), 2)
        membranes[j]["results_link_to"] = membranes[i]["dir"]
    metas = [wg.membrane_meta(m) for m in membranes]
    pool = []
    for _ in range(w.randint(2, 5)):
        it = gen_process_item(w, w.choice(metas))
        if it:
            pool.append(it)
    if not any(p["kind"] == "process" for p in pool):
        for m in metas:
            it = gen_process_item(w, m)
            if it:
                pool.append(it)
                break
    for _ in range(w.randint(1, 3)):
        it = gen_curve_item(w, w.choice(metas))
        if it:
            pool.append(it)
    for _ in range(w.randint(1, 2)):
        pool.append(gen_fn_item(w, metas))
    for _ in range(w.randint(1, 3)):
        pool.append(gen_cond_item(w))
    return membranes, metas, pool


def _est_bytes(item):
    if item["kind"] == "process":
        return 320 + 250 * min(item["steps"], 40) + 700
    return 1200


def gen_fault(f, opkind, item):
    kind = f.choice(FAULT_KINDS)
    if opkind.startswith("load"):
        kind = f.choice(["crash-call", "eio-open", "eacces-open", "emfile-open", "eio-call"])
    if opkind in ("save_curve", "save_fn", "save_cond") and kind in ("enospc-mkdir", "eio-mkdir"):
        kind = "enospc-write"
    ncalls = {"save_process": 10, "load_process": 9, "load_curve": 6}.get(opkind, 2)
    if kind == "crash-call":
        return {"kind": "crash", "at_call": f.randint(0, ncalls)}
    if kind == "eio-call":
        return {"kind": "eio-call", "at_call": f.randint(0, ncalls)}
    if kind == "crash-byte":
        return {"kind": "crash", "at_byte": f.randint(0, int(_est_bytes(item) * 1.05)), "flush": f.random() < 0.6}
    if kind == "enospc-write":
        return {"kind": kind, "at_byte": f.randint(0, int(_est_bytes(item) * 1.05))}
    if kind.endswith("-open"):
        return {"kind": kind, "nth": f.randint(0, 3 if opkind != "load_process" else 4)}
    return {"kind": kind, "nth": f.randint(0, 2)}


def gen_opts(tier):
    return {"deep": tier == "thorough"}


def gen_plan(verif_seed, run, deep=False):
    rs = derive(PROP, verif_seed, run)
    w, o, f, c, l = (stream(rs, n) for n in ("world", "ops", "faults", "clock", "listing"))
    membranes, metas, pool = gen_world(w)
    idx = {k: [i for i, p in enumerate(pool) if p["kind"] == k] for k in ("process", "curve", "fn", "cond")}
    n_ops = o.randint(10, 40 if deep else 25)
    long_history = o.random() < (0.10 if deep else 0.06)       # a few long, save-heavy histories (many result directories under one membrane)
    if long_history:
        n_ops = o.randint(40, 60)
    dirs = [m["dir"] for m in metas]
    fav_dir = o.choice(dirs)
    ops = []
    saves = {"process": [], "curve": [], "fn": [], "cond": []}
    weights = [("save_process", 34), ("load_process", 20), ("save_curve", 7), ("load_curve", 9), ("save_fn", 6), ("load_fn", 7),
               ("save_cond", 3), ("load_cond", 4), ("load_membrane", 3), ("restart", 7), ("delete_process", 4), ("set_fits", 3)]
    if long_history:
        weights = [(k, (90 if k == "save_process" else wt)) for k, wt in weights]
    many_results = o.random() < 0.05         # a membrane directory that already holds more than a hundred results
    # swarm: drop some op kinds for this run
    enabled = [k for k, _ in weights if k in ("save_process", "load_process") or o.random() < 0.8]
    perm_listing = o.random() < 0.7
    n_file = 0
    curve_names = None
    if o.random() < 0.2 and idx["curve"]:       # one naming habit per run, in a run that works with curve files
        curve_names = o.choice(["files/curve_333K_p0.%dkPa", "files/curve_333K_p0.%dkPa", "files/curve_%d.CSV", "files/curve_%d.dat",
                                "files/curve.v%d", "files/curve.v%d", "files/curve_%d", "files/run.2.%d.csv"])
        weights = [(k, (wt * 4 if k in ("save_curve", "load_curve") else wt)) for k, wt in weights]
        enabled = sorted(set(enabled) | {"save_curve", "load_curve"})
    for _ in range(n_ops):
        kinds = [(k, wt) for k, wt in weights if k in enabled]
        k = o.choices([x[0] for x in kinds], [x[1] for x in kinds])[0]
        op = {"id": len(ops), "op": k}
        if k == "save_process":
            op["obj"] = o.choice(idx["process"])
            op["dir"] = fav_dir if o.random() < 0.75 else o.choice(dirs)
            op["safe"] = o.random() < 0.5
            if pool[op["obj"]].get("ic_none"):
                op["safe"] = False
            if o.random() < 0.2:
                op["as_str"] = True
            saves["process"].append(op["id"])
        elif k == "load_process":
            if not saves["process"]:
                continue
            op["of"] = o.choice(saves["process"][-4:]) if o.random() < 0.7 else o.choice(saves["process"])
            op["same_mode"] = o.random() < 0.9
            if o.random() < 0.2:
                op["as_str"] = True
        elif k == "save_curve":
            if not idx["curve"]:
                continue
            loads = [x for x in ops if x["op"] == "load_curve"]
            if loads and o.random() < 0.25:
                op["from_load"] = o.choice(loads)["id"]
            else:
                op["obj"] = o.choice(idx["curve"])
            if o.random() < 0.4:
                d = o.choice(dirs)
                op["file"] = "%s/diffusion_curve_sets/saved_%d.csv" % (d, n_file)
                op["membrane_dir"] = d
            elif saves["curve"] and o.random() < 0.2:
                prev = ops_by_id(ops, o.choice(saves["curve"]))     # overwrite an earlier file (user's choice)
                op["file"] = prev["file"]
                if "membrane_dir" in prev:
                    op["membrane_dir"] = prev["membrane_dir"]
            elif curve_names is not None and o.random() < 0.8:
                # the path is the caller's choice: no extension, another extension, decimal points in the name
                op["file"] = curve_names % n_file
            else:
                op["file"] = "files/curve_%d.csv" % n_file
            n_file += 1
            saves["curve"].append(op["id"])
        elif k == "load_curve":
            if not saves["curve"]:
                continue
            op["of"] = o.choice(saves["curve"])
            src = ops_by_id(ops, op["of"])
            if "membrane_dir" in src and o.random() < 0.5:
                op["via_membrane"] = src["membrane_dir"]
        elif k == "save_fn":
            loads = [x for x in ops if x["op"] == "load_fn"]
            if loads and o.random() < 0.25:
                op["from_load"] = o.choice(loads)["id"]       # save again what was loaded (possibly in the other storage mode)
            else:
                op["obj"] = o.choice(idx["fn"])
            op["safe"] = o.random() < 0.5
            op["file"] = "files/fn_%d.pv" % n_file
            if saves["fn"] and o.random() < 0.2:
                op["file"] = ops_by_id(ops, o.choice(saves["fn"]))["file"]      # saved over an earlier file (user's choice)
            n_file += 1
            if o.random() < 0.3:
                op["as_str"] = True
            saves["fn"].append(op["id"])
        elif k == "load_fn":
            if not saves["fn"]:
                continue
            op["of"] = saves["fn"][-1] if o.random() < 0.4 else o.choice(saves["fn"])
            op["same_mode"] = o.random() < 0.9
        elif k == "save_cond":
            loads = [x for x in ops if x["op"] == "load_cond"]
            if loads and o.random() < 0.25:
                op["from_load"] = o.choice(loads)["id"]
            else:
                op["obj"] = o.choice(idx["cond"])
            op["file"] = "files/cond_%d.json" % n_file
            if saves["cond"] and o.random() < 0.3:
                op["file"] = ops_by_id(ops, o.choice(saves["cond"]))["file"]    # saved over an earlier file (user's choice)
            n_file += 1
            saves["cond"].append(op["id"])
        elif k == "load_cond":
            if not saves["cond"]:
                continue
            op["of"] = saves["cond"][-1] if o.random() < 0.5 else o.choice(saves["cond"])
        elif k == "load_membrane":
            op["dir"] = o.choice(dirs)
        elif k == "restart":
            op["skew"] = o.random() < 0.4
        elif k == "delete_process":
            if not saves["process"]:
                continue
            op["of"] = o.choice(saves["process"])
        elif k == "set_fits":
            # the user assigns (other) fitted functions to a model, typically between two saves of it
            if len(idx["fn"]) < 1 or not saves["process"]:
                continue
            op["obj"] = ops_by_id(ops, o.choice(saves["process"]))["obj"]
            op["fits"] = [o.choice(idx["fn"]), o.choice(idx["fn"])]
        # clock
        if k == "save_process":
            earlier = [s for s in saves["process"] if s != op["id"]]
            pol = c.choices(CLOCK_POLICIES, [50, 18, 10, 22])[0]
            if not earlier and pol in ("rewind", "collide", "frozen"):
                pol = "mono"
            if pol == "mono":
                op["clock"] = {"mode": "mono", "gap": c.choice([1, 7, 1000, 3_600_000_000, c.randint(1, 3 * 86400 * 1_000_000)]),
                               "step": c.choice([0, 1, 1, 13, 1_000_000])}
            elif pol == "frozen":
                op["clock"] = {"mode": "frozen"}
            else:
                same_dir = [s for s in earlier if ops[s]["dir"] == op["dir"]]
                op["clock"] = {"mode": pol, "ref": c.choice(same_dir) if same_dir else c.choice(earlier), "gap": c.randint(1, 10**9),
                               "step": c.choice([0, 1])}
        else:
            op["clock"] = {"mode": "mono", "gap": c.randint(1, 10**10), "step": c.choice([0, 1, 1000])}
        op["listing"] = l.getrandbits(32) if perm_listing else None
        ops.append(op)
    # faults: 55 % of runs are fault-free
    faulty = f.random() >= 0.55
    n_faults = 0
    if faulty:
        enabled_kinds = [k for k in FAULT_KINDS if f.random() < 0.6] or [f.choice(FAULT_KINDS)]
        targets = [op for op in ops if op["op"].startswith(("save", "load")) and op["op"] != "load_membrane"]
        sp = [op for op in targets if op["op"] == "save_process"]
        for _ in range(f.randint(1, 5 if deep else 3)):
            if not targets:
                break
            op = f.choice(sp) if (sp and f.random() < 0.7) else f.choice(targets)
            if op.get("fault"):
                continue
            item = pool[op["obj"]] if "obj" in op else {"kind": "x"}
            for _try in range(6):
                fl = gen_fault(f, op["op"], item)
                name = fl["kind"] if fl["kind"] != "crash" else ("crash-call" if "at_call" in fl else "crash-byte")
                if name in enabled_kinds:
                    break
            op["fault"] = fl
            n_faults += 1
    if many_results:
        sp = [x for x in ops if x["op"] == "save_process"]
        if sp:
            at = ops.index(sp[0]) + 1
            ops.insert(at, {"id": len(ops), "op": "clone_results", "of": sp[0]["id"], "count": o.randint(101, 130)})
    return {
        "prop": PROP, "verif_seed": verif_seed, "run": run, "run_seed": rs,
        "budget": w.choice([2000, 5000, 20000]),
        "membranes": membranes, "pool": pool, "ops": ops, "fault_free": n_faults == 0,
        "progress": {"obj": idx["process"][0] if idx["process"] else None,
                     "safe": (o.random() < 0.5) and not (idx["process"] and pool[idx["process"][0]].get("ic_none"))},
    }


# =========================================================================================
# execution + reference model + oracles
# =========================================================================================

class Violation(Exception):
    def __init__(self, oracle, op, detail):
        super().__init__(oracle)
        self.oracle = oracle
        self.op = op
        self.detail = detail


def _abstract(path, names):
    parts = path.split("/") if path else []
    return "/".join(names.get(p, p) for p in parts)


def _write_paths(events):
    out = []
    for e in events:
        fn = e[0]
        if any(isinstance(x, str) and (x.startswith("ERR:") or x in ("CRASH", "eio-open", "eacces-open", "emfile-open", "enospc-mkdir", "eio-mkdir", "eio-call")) for x in e[3:]):
            continue      # the call failed or never happened: nothing was written
        if fn == "open" and any(ch in (e[2] or "") for ch in "wax+"):
            out.append(e[1])
        elif fn in ("mkdir", "unlink", "remove", "rmdir"):
            out.append(e[1])
        elif fn in ("rename", "replace"):
            out.append(e[1])
            out.append(e[2])
        elif fn == "os.open" and isinstance(e[2], int) and (e[2] & (os.O_WRONLY | os.O_RDWR | os.O_CREAT)):
            out.append(e[1])
    return [p for p in out if p]


def _inside(path, directory):
    return path == directory or path.startswith(directory + "/")


def execute(ctx, plan, stats=None):
    """Runs one plan.  Returns {"trace": [...], "trace_digest": str, "violation": None|{...}, "stats": {...}}."""
    st = stats if stats is not None else {}
    st.setdefault("faults_configured", {})
    st.setdefault("faults_fired", {})
    st.setdefault("crash_points", {})
    for k in ("ops", "collisions", "restarts", "skips", "budget_truncated", "progress_checked", "roundtrips_checked",
              "immutable_checks", "newdir_checks", "cross_interpreter_loads", "nonsave_op_changed_saved_dir",
              "reused_partial_directory", "collide_resolved"):
        st.setdefault(k, 0)
    st.setdefault("states", set())
    st.setdefault("transitions", set())
    st.setdefault("clock_span_us", 0)

    root = ctx.new_root()
    trace = []
    violation = None
    try:
        for m in plan["membranes"]:
            wg.materialise_membrane(root, m, ctx.repo)
            src = dict(m)
            src["dir"] = os.path.join("_src", m["dir"])
            wg.materialise_membrane(root, src, ctx.repo)
        os.makedirs(os.path.join(root, "files"))
        linked = set()
        for m in plan["membranes"]:
            if m.get("results_link_to"):
                target = os.path.join(root, m["results_link_to"], "results")
                os.makedirs(target, exist_ok=True)
                os.symlink(target, os.path.join(root, m["dir"], "results"))
                linked.add(m["dir"])
        mixtures = ctx.A.info["mixtures"]
        which = "A"
        gen = 0
        init = {"prop": PROP, "root": root, "world": {"pool": plan["pool"]}, "budget": plan["budget"],
                "entropy": derive(plan["run_seed"], "entropy") % (2**31)}
        sess = ctx.zy(which).fork(init)

        entries = {}      # save op id -> {"kind": "process", "path", "safe", "view", "tree", "gen"}
        files = {}        # relpath -> {"kind", "safe", "view", "complete", "gen", "op"}
        partial = set()   # process dirs left by saves that did not return normally
        names = {}        # real dir name -> abstract label
        dirnames = {}     # save op id -> dir basename (also for partial ones) for the collide policy
        starts = {}       # op id -> clock start used
        now = T0_US
        first_us = last_us = now
        frozen_at = now
        mem_dirs = [m["dir"] for m in plan["membranes"]]
        policy_seen = "mono"

        def listing():
            out = {}
            for d in mem_dirs:
                res = os.path.join(root, d, "results")
                # a linked results/ is listed under the membrane that really owns it (each directory once)
                out[d] = oc.list_dirs(res) if (os.path.isdir(res) and d not in linked) else []
            return out

        def new_session(skew):
            nonlocal sess, which, gen, now
            if sess is not None and sess.alive:
                sess.close()
            which = "B" if which == "A" else "A"
            gen += 1
            if skew:
                now += DECADE_US
            sess = ctx.zy(which).fork(init)
            st["restarts"] += 1

        def state_abs(last_kind, last_out):
            nsaved = len([e for e in entries.values()])
            return (min(nsaved, 3), min(len(partial), 2), policy_seen, min(gen, 2), last_kind, last_out)

        prev_state = state_abs("start", "ok")
        st["states"].add(prev_state)

        def run_session_op(op, payload, clock_req, fault):
            nonlocal now, first_us, last_us
            rep = sess.op(payload, clock_req, fault, op.get("listing"))
            ck = rep.get("clock", {})
            res = ck.get("resolved") or {}
            if "start" in res:
                starts[op["id"]] = res["start"]
                end = res["start"] + ck.get("reads", 0) * res.get("step", 0)
                now = max(now, end)
                last_us = max(last_us, end)
                first_us = min(first_us, res["start"])
            elif ck.get("log"):
                starts[op["id"]] = ck["log"][0]
            return rep

        def resolve_clock(op):
            nonlocal now, frozen_at, policy_seen
            ck = op.get("clock") or {"mode": "mono", "gap": 1, "step": 1}
            mode = ck["mode"]
            if op["op"] == "save_process":
                policy_seen = mode
            if mode == "frozen":
                return {"start": frozen_at, "step": 0}
            if mode == "rewind" and ck.get("ref") in starts:
                return {"start": starts[ck["ref"]], "step": ck.get("step", 0)}
            if mode == "collide" and ck.get("ref") in dirnames:
                now += ck.get("gap", 1)
                return {"collide": dirnames[ck["ref"]], "from": now, "step": ck.get("step", 1)}
            now += ck.get("gap", 1)
            frozen_at = now
            return {"start": now, "step": ck.get("step", 1)}

        def check_immutable(op, events, is_save):
            st["immutable_checks"] += 1
            wp = _write_paths(events)
            for sid in sorted(entries, key=str):
                e = entries[sid]
                d = oc.tree_diff(e["tree"], oc.tree_digest(os.path.join(root, e["path"])) if os.path.isdir(os.path.join(root, e["path"])) else [])
                touched = [p for p in wp if _inside(p, e["path"])]
                if d or touched:
                    if is_save:
                        raise Violation("C17.immutable", op, {"saved_by_op": sid, "directory": _abstract(e["path"], names),
                                                               "change": d, "writes_inside": [_abstract(p, names) for p in touched][:5]})
                    st["nonsave_op_changed_saved_dir"] += 1
                    e["tree"] = oc.tree_digest(os.path.join(root, e["path"]))

        ops = plan["ops"]
        for op in ops:
            k = op["op"]
            st["ops"] += 1
            rec = {"id": op["id"], "op": k}
            if k == "restart":
                new_session(op.get("skew"))
                rec["gen"] = gen
                trace.append(rec)
                continue
            if k == "clone_results":
                # the user has many earlier results: the lane copies a completed result directory N times under
                # other names (not a library call); every copy is a previously saved process directory from then on
                e = entries.get(op["of"])
                if e is None:
                    rec["skipped"] = "nothing saved"
                else:
                    import shutil
                    parent = os.path.dirname(e["path"])
                    for j in range(op["count"]):
                        name = "process_%04d" % (j * 7919 % 10000) if j % 2 else "process_-%03d" % (j * 613 % 1000)
                        dst = os.path.join(parent, name)
                        if os.path.exists(os.path.join(root, dst)):
                            continue
                        shutil.copytree(os.path.join(root, e["path"]), os.path.join(root, dst))
                        names.setdefault(name, "C%d" % j)
                        entries["clone-%s-%d" % (op["id"], j)] = {"kind": "process", "path": dst, "safe": e["safe"], "view": e["view"],
                                                                    "tree": oc.tree_digest(os.path.join(root, dst)), "gen": e["gen"]}
                    rec["cloned"] = op["count"]
                    st["cloned_result_dirs"] = st.get("cloned_result_dirs", 0) + op["count"]
                trace.append(rec)
                continue
            if k == "delete_process":
                # the user removes an earlier result directory by hand (not a library call)
                e = entries.pop(op["of"], None)
                if e is None:
                    rec["skipped"] = "nothing saved"
                else:
                    import shutil
                    shutil.rmtree(os.path.join(root, e["path"]))
                    rec["deleted"] = _abstract(e["path"], names)
                    st["user_deletes"] = st.get("user_deletes", 0) + 1
                trace.append(rec)
                continue
            if not sess.alive:
                new_session(False)
            fault = op.get("fault")
            fname = None
            if fault:
                fname = fault["kind"] if fault["kind"] != "crash" else ("crash-call" if "at_call" in fault else "crash-byte")
                st["faults_configured"][fname] = st["faults_configured"].get(fname, 0) + 1
            payload = {kk: v for kk, v in op.items() if kk in ("op", "obj", "dir", "safe", "file", "as_str", "via_membrane", "id", "from_load", "fits")}
            expect = None
            if k.startswith("load") and k != "load_membrane" and ops_by_id(ops, op["of"]) is None:
                rec["skipped"] = "referenced op removed"
                trace.append(rec)
                continue
            if k == "load_process":
                src = ops_by_id(ops, op["of"])
                e = entries.get(op["of"])
                if e is None:
                    pd = dirnames.get(op["of"])
                    if pd is None:
                        rec["skipped"] = "nothing saved"
                        st["skips"] += 1
                        trace.append(rec)
                        continue
                    payload["path"] = os.path.join(src["dir"], "results", pd)    # partial directory: outcome unchecked
                    payload["safe"] = src["safe"]
                else:
                    payload["path"] = e["path"]
                    payload["safe"] = e["safe"] if op.get("same_mode", True) else (not e["safe"])
                    if op.get("same_mode", True):
                        expect = e
            elif k in ("load_curve", "load_fn", "load_cond"):
                src = ops_by_id(ops, op["of"])
                payload["file"] = src["file"]
                fe = files.get(src["file"])
                if fe is None:
                    rec["skipped"] = "nothing saved"
                    st["skips"] += 1
                    trace.append(rec)
                    continue
                if k == "load_fn":
                    payload["safe"] = fe["safe"] if op.get("same_mode", True) else (not fe["safe"])
                if k == "load_curve" and op.get("via_membrane"):
                    payload["set"] = os.path.basename(src["file"])[:-4]
                if fe["complete"] and fe["op"] == op["of"] and (k != "load_fn" or op.get("same_mode", True)):
                    expect = fe
                    if k == "load_curve" and op.get("via_membrane"):
                        d = op["via_membrane"]
                        if any((not v["complete"]) and p.startswith(d + "/") for p, v in files.items()):
                            expect = None     # a torn sibling file may legitimately break Membrane.load
            before = listing()
            clock_req = resolve_clock(op)
            rep = run_session_op(op, payload, clock_req, fault)
            kind = rep["kind"]
            events = rep.get("events", [])
            fired = bool(rep.get("fault_fired"))
            if fault and fired:
                st["faults_fired"][fname] = st["faults_fired"].get(fname, 0) + 1
                if fault["kind"] == "crash":
                    cp = st["crash_points"].setdefault(k, {})
                    key = "call:%d" % fault["at_call"] if "at_call" in fault else "byte"
                    cp[key] = cp.get(key, 0) + 1
            if kind == "skip":
                rec["skipped"] = rep.get("why")
                st["skips"] += 1
                trace.append(rec)
                continue
            if kind == "budget":
                st["budget_truncated"] += 1
                rec["outcome"] = "budget"
                trace.append(rec)
                break
            if clock_req.get("collide") and rep.get("clock", {}).get("resolved", {}).get("collide_found"):
                st["collide_resolved"] += 1
            after = listing()
            created = []
            for d in mem_dirs:
                for nd in after[d]:
                    if nd not in before[d]:
                        created.append(os.path.join(d, "results", nd))
            for p in created:
                base = os.path.basename(p)
                if base not in names:
                    names[base] = "P%d" % len(names)
            rec["outcome"] = kind if kind != "exc" else "exc:" + rep.get("exc", "?")
            rec["events"] = [[e[0], _abstract(e[1], names)] + [x if not isinstance(x, str) else _abstract(x, names) for x in e[2:]] for e in events]
            rec["fault"] = fname if fired else None
            rec["clock_reads"] = rep.get("clock", {}).get("reads")
            clean = (kind == "ok") and not fired

            if k == "save_process":
                if kind == "exc" and rep.get("exc") == "FileExistsError":
                    st["collisions"] += 1
                check_immutable(op, events, True)
                if any(_inside(p, q) for p in _write_paths(events) for q in partial):
                    st["reused_partial_directory"] += 1
                if created:
                    dirnames[op["id"]] = os.path.basename(sorted(created, key=len)[0])
                if clean:
                    st["newdir_checks"] += 1
                    cands = [p for p in created if os.path.isfile(os.path.join(root, p, "process_model.csv"))]
                    if not cands:
                        cands = [p for p in sorted(partial) if _inside(p, op["dir"]) and os.path.isfile(os.path.join(root, p, "process_model.csv"))
                                 and any(_inside(w_, p) for w_ in _write_paths(events))]
                        for p in cands:
                            partial.discard(p)
                    if len(cands) != 1:
                        raise Violation("C17.newdir", op, {"note": "save returned normally but %d new process directories hold process_model.csv" % len(cands),
                                                           "created": [_abstract(p, names) for p in created]})
                    path = cands[0]
                    entries[op["id"]] = {"kind": "process", "path": path, "safe": op["safe"], "view": rep["view"],
                                         "tree": oc.tree_digest(os.path.join(root, path)), "gen": gen}
                    rec["saved_as"] = _abstract(path, names)
                else:
                    for p in created:
                        partial.add(p)
            else:
                check_immutable(op, events, False)
                for p in created:
                    partial.add(p)

            if k in ("save_curve", "save_fn", "save_cond"):
                files[op["file"]] = {"kind": k[5:], "safe": op.get("safe"), "view": rep.get("view"), "complete": clean, "gen": gen, "op": op["id"]}
            if (k == "load_membrane" or (k == "load_curve" and op.get("via_membrane"))) and kind == "ok" and not fired and "sets" in rep:
                d = op.get("dir") or op.get("via_membrane")
                mine = {p_: v for p_, v in files.items() if p_.startswith(d + "/diffusion_curve_sets/")}
                if all(v["complete"] for v in mine.values()):
                    mm = [m_ for m_ in plan["membranes"] if m_["dir"] == d]
                    expected = sorted([s_["name"] for s_ in mm[0]["sets"]] + [os.path.basename(p_)[:-4] for p_ in mine]) if mm else None
                    if expected is not None:
                        st["membrane_listing_checks"] = st.get("membrane_listing_checks", 0) + 1
                        if sorted(rep["sets"]) != expected:
                            raise Violation("C17.roundtrip", op, {"note": "Membrane.load does not return exactly the curve sets that were saved under this membrane directory",
                                                                  "expected_sets": expected, "loaded_sets": sorted(rep["sets"])})
            if k.startswith("load") and k != "load_membrane" and expect is not None and not fired:
                st["roundtrips_checked"] += 1
                if expect["gen"] != gen:
                    st["cross_interpreter_loads"] += 1
                if kind != "ok":
                    raise Violation("C17.roundtrip", op, {"note": "load of a completed save failed", "exception": rep.get("exc"), "msg": rep.get("msg"),
                                                          "saved_by_op": op["of"]})
                if k == "load_process":
                    bad = oc.cmp_process(expect["view"], rep["view"], mixtures, expect["safe"])
                elif k == "load_curve":
                    bad = oc.cmp_curve(expect["view"], rep["view"], mixtures)
                    if not bad and not op.get("via_membrane") and rep.get("n_curves") != 1:
                        bad = [{"field": "n_curves", "original": 1, "loaded": rep.get("n_curves")}]
                elif k == "load_fn":
                    bad = oc.cmp_fn(expect["view"], rep["view"])
                else:
                    bad = oc.cmp_cond(expect["view"], rep["view"])
                if bad:
                    raise Violation("C17.roundtrip", op, {"saved_by_op": op["of"], "mismatch": bad, "storage": "safe" if expect.get("safe") else "binary"})
                rec["roundtrip"] = "ok"
            if "view" in rep:
                rec["view"] = digest(rep["view"])
            trace.append(rec)
            out_class = "ok" if kind == "ok" else ("crash" if kind == "crashed" else "exc")
            s2 = state_abs(k, out_class)
            st["states"].add(s2)
            st["transitions"].add((prev_state, k, fname if fired else None, out_class))
            prev_state = s2

        # ---- bounded liveness: with faults over, monotonic clock and a fresh membrane directory
        pg = plan.get("progress") or {}
        if pg.get("obj") is not None and not any(r.get("outcome") == "budget" for r in trace):
            if not sess.alive:
                new_session(False)
            src = plan["membranes"][0]
            fresh = dict(src)
            fresh["dir"] = "fresh_membrane"
            wg.materialise_membrane(root, fresh, ctx.repo)
            mem_dirs.append("fresh_membrane")
            now += 86400 * 1_000_000
            op = {"id": "progress-save", "op": "save_process", "obj": pg["obj"], "dir": "fresh_membrane", "safe": pg["safe"]}
            before = listing()
            rep = sess.op({kk: v for kk, v in op.items() if kk != "id"}, {"start": now, "step": 1}, None, None)
            if rep["kind"] == "skip":
                st["skips"] += 1
            elif rep["kind"] == "budget":
                st["budget_truncated"] += 1
            else:
                st["progress_checked"] += 1
                if rep["kind"] != "ok":
                    raise Violation("C17.progress", op, {"note": "fault-free save into a fresh membrane directory under a monotonic clock did not return normally",
                                                         "exception": rep.get("exc"), "msg": rep.get("msg")})
                check_immutable(op, rep.get("events", []), True)
                after = listing()
                cands = [nd for nd in after["fresh_membrane"] if nd not in before["fresh_membrane"]
                         and os.path.isfile(os.path.join(root, "fresh_membrane", "results", nd, "process_model.csv"))]
                if len(cands) != 1:
                    raise Violation("C17.newdir", op, {"note": "progress save created %d process directories" % len(cands)})
                path = os.path.join("fresh_membrane", "results", cands[0])
                op2 = {"id": "progress-load", "op": "load_process", "path": path, "safe": pg["safe"], "of": "progress-save"}
                rep2 = sess.op({kk: v for kk, v in op2.items() if kk not in ("id", "of")}, {"start": now + 10, "step": 1}, None, None)
                if rep2["kind"] != "ok":
                    raise Violation("C17.progress", op2, {"note": "load of the progress save failed", "exception": rep2.get("exc"), "msg": rep2.get("msg")})
                bad = oc.cmp_process(rep["view"], rep2["view"], mixtures, pg["safe"])
                if bad:
                    raise Violation("C17.roundtrip", op2, {"saved_by_op": "progress-save", "mismatch": bad, "storage": "safe" if pg["safe"] else "binary"})
                trace.append({"id": "progress", "outcome": "ok", "view": digest(rep2["view"])})
        st["clock_span_us"] += max(0, last_us - first_us)
    except Violation as v:
        violation = {"oracle": v.oracle, "op": v.op, "detail": v.detail}
        trace.append({"violation": v.oracle, "op_id": v.op.get("id"), "op": v.op.get("op")})
    finally:
        try:
            ctx.end_sessions()
        finally:
            ctx.drop_root(root)
    cov = digest([[r.get("op"), r.get("outcome"), r.get("fault"), r.get("roundtrip")] for r in trace])
    nontrivial = any(r.get("op", "").startswith("save") and r.get("outcome") for r in trace) and any(
        r.get("roundtrip") or r.get("saved_as") for r in trace)
    return {"trace": trace, "trace_digest": digest(trace), "violation": violation, "coverage_sig": cov, "nontrivial": nontrivial}


def ops_by_id(ops, oid):
    for o in ops:
        if o["id"] == oid:
            return o
    return None


def signature(violation):
    if not violation:
        return None
    op = violation["op"]
    sig = [violation["oracle"], op.get("op")]
    det = violation.get("detail") or {}
    if "mismatch" in det and det["mismatch"]:
        f = det["mismatch"][0]["field"]
        sig.append(f.split("[")[0].split("<")[0])
    return sig


def summarize(plan):
    """Short human-readable history for evidence samples."""
    out = []
    for op in plan["ops"]:
        s = op["op"]
        if "obj" in op:
            it = plan["pool"][op["obj"]]
            s += "(%s%s)" % (it.get("model") or it.get("how") or it["kind"], ",safe" if op.get("safe") else "")
        if "of" in op:
            s += "(of #%s)" % op["of"]
        if op.get("clock", {}).get("mode") not in (None, "mono"):
            s += "@" + op["clock"]["mode"]
        if op.get("fault"):
            f = op["fault"]
            s += "!" + f["kind"] + ":" + str(f.get("at_call", f.get("at_byte", f.get("nth"))))
        out.append(s)
    return out


def simplifiers(plan):
    """Callables plan -> simpler plan (or None), applied one at a time by the shrinker."""
    fs = []

    def drop_progress(p):
        if p.get("progress", {}).get("obj") is None:
            return None
        p["progress"] = {"obj": None, "safe": False}
        return p

    fs.append(drop_progress)
    for op in plan["ops"]:
        oid = op["id"]

        def drop_fault(p, oid=oid):
            o = ops_by_id(p["ops"], oid)
            if o is None or not o.get("fault"):
                return None
            o["fault"] = None
            return p

        def earlier_fault(p, oid=oid):
            o = ops_by_id(p["ops"], oid)
            if o is None or not o.get("fault"):
                return None
            f = o["fault"]
            for key in ("at_call", "nth"):
                if f.get(key):
                    f[key] = f[key] - 1
                    return p
            if f.get("at_byte"):
                f["at_byte"] = f["at_byte"] // 2
                return p
            return None

        def mono_clock(p, oid=oid):
            o = ops_by_id(p["ops"], oid)
            if o is None or (o.get("clock") or {}).get("mode") in (None, "mono"):
                return None
            o["clock"] = {"mode": "mono", "gap": 1000, "step": 1}
            return p

        def frozen_clock(p, oid=oid):
            o = ops_by_id(p["ops"], oid)
            if o is None or (o.get("clock") or {}).get("mode") in (None, "mono", "frozen"):
                return None
            o["clock"] = {"mode": "frozen"}
            return p

        def no_listing(p, oid=oid):
            o = ops_by_id(p["ops"], oid)
            if o is None or o.get("listing") is None:
                return None
            o["listing"] = None
            return p

        def no_str(p, oid=oid):
            o = ops_by_id(p["ops"], oid)
            if o is None or not o.get("as_str"):
                return None
            o.pop("as_str")
            return p

        fs += [drop_fault, earlier_fault, mono_clock, frozen_clock, no_listing, no_str]
    used = sorted({op["obj"] for op in plan["ops"] if "obj" in op})
    for i in used:
        def fewer_steps(p, i=i):
            it = p["pool"][i]
            if it.get("kind") == "process" and it["steps"] > 2:
                it["steps"] = 2
                return p
            if it.get("kind") == "curve" and it.get("how") == "hand" and len(it["comps"]) > 1:
                it["comps"] = it["comps"][:1]
                for key in ("fluxes", "permeances"):
                    if it.get(key):
                        it[key] = it[key][:1]
                return p
            return None

        def plain_cond(p, i=i):
            it = p["pool"][i]
            if it.get("kind") != "process":
                return None
            c = it["cond"]
            if c.get("program") is None and c.get("pt") is None and c.get("pp") is None and it.get("calc", "NRTL") == "NRTL":
                return None
            c["program"] = None
            c["pt"] = None
            c["pp"] = None
            it["calc"] = "NRTL"
            return p

        fs += [fewer_steps, plain_cond]

    def fewer_membranes(p):
        used_dirs = {o.get("dir") for o in p["ops"]} | {p["pool"][o["obj"]].get("membrane") for o in p["ops"] if "obj" in o}
        used_dirs |= {o.get("membrane_dir") for o in p["ops"]} | {o.get("via_membrane") for o in p["ops"]}
        if p.get("progress", {}).get("obj") is not None:
            used_dirs.add(p["pool"][p["progress"]["obj"]].get("membrane"))
            used_dirs.add(p["membranes"][0]["dir"])
        keep = [m for m in p["membranes"] if m["dir"] in used_dirs]
        if len(keep) == len(p["membranes"]) or not keep:
            return None
        p["membranes"] = keep
        return p

    fs.append(fewer_membranes)
    return fs


SHRINK_EXECS = 250
RULE = ("one evaluation = one simulated run: a world (1-3 fixture + 0-2 synthetic membrane directories, a pool of process models / "
        "curves / permeance functions / conditions built by the real generators) and a seeded history of 10-25 save/load/restart "
        "operations executed by the real library code in forked interpreter sessions over intercepted storage, a scripted clock "
        "(monotonic / frozen / rewind / hash-prefix-colliding) and 0-3 injected faults; every choice derives from "
        "sha256(VERIF_SEED, property, run index). A run is non-trivial if at least one save executed and at least one oracle "
        "comparison (new-directory or round-trip) was made; distinct = distinct (op kind, outcome class, fired fault, round-trip) sequences.")
REAL = ["pyvaporation (all of it, from the tree under test)", "pandas", "joblib", "json", "pathlib", "numpy", "scipy",
        "the kernel file system under a per-run scratch root", "process death (os._exit in a forked interpreter)"]
STUBS = ["datetime.now (scripted clock)", "directory listing order (seeded permutation)", "errno faults on open/mkdir and short writes (injected)",
         "PYTHONHASHSEED (chosen per zygote interpreter)", "os.urandom/uuid4/random (seeded)", "BLAS threads (pinned to 1)", "matplotlib (never called)"]
ASSUMPTIONS = [
    "a forked child of a zygote interpreter that made no modelling call stands for a fresh interpreter",
    "no fsync/power-loss model: data handed to the OS before a crash survives, Python-level buffers are lost",
    "the lane's own restatement of mole/mass and permeance unit conversions and the molecular weights reported by the pristine zygote",
    "sampling, not enumeration: a clean batch is evidence, not proof",
]
