#!/venv/bin/python
"""Driver of the deterministic simulation checks.

  run.py <C16|C17|C20> [--tier quick|thorough] [--runs N] [--first I]
  run.py <prop> --replay <file>

Pure function of (VERIF_SEED, tier, property) and the tree under /repo.  Never imports the
library.  Exit 0: property held on everything explored.  Exit 1 + `VIOLATION property=<id>
replay=<path>`: violation (minimised, replay verified in fresh interpreters).  Exit 2:
harness error (never to be read as a pass)."""
import argparse
import importlib
import json
import os
import shutil
import subprocess
import sys
import tempfile
import time

VERIF = os.path.dirname(os.path.dirname(os.path.abspath(__file__)))
if VERIF not in sys.path:
    sys.path.insert(0, VERIF)

from sim.common import N_LANES, PYTHON, REPO, hash_seed_for  # noqa: E402
from sim.lane import HarnessError, LaneCtx, sweep_stale_roots  # noqa: E402
from sim.shrink import Shrinker  # noqa: E402

MODULES = {"C17": "sim.c17", "C20": "sim.c20", "C16": "sim.c16"}
TIERS = {
    "C17": {"quick": 1200, "thorough": 40000},
    "C20": {"quick": 560, "thorough": 30000},
    "C16": {"quick": 160, "thorough": 3000},
}
WALL_CAP_S = {"quick": 1500, "thorough": 6 * 3600}


def repo_rev(repo):
    try:
        head = subprocess.run(["git", "-C", repo, "rev-parse", "HEAD"], capture_output=True, text=True, timeout=30).stdout.strip()
        diff = subprocess.run(["git", "-C", repo, "diff", "HEAD", "--", "pyvaporation"], capture_output=True, text=True, timeout=30).stdout
        import hashlib

        return {"head": head, "dirty_diff_sha": hashlib.sha256(diff.encode()).hexdigest()[:16] if diff else None}
    except Exception:
        return {"head": None, "dirty_diff_sha": None}


def load_known():
    p = os.path.join(VERIF, "known_findings.json")
    if not os.path.exists(p):
        return {"findings": [], "fixed": []}
    return json.load(open(p))


def matches(finding, prop, violation):
    if finding.get("property") != prop:
        return False
    m = finding.get("match") or {}
    if m.get("oracle") and m["oracle"] != violation["oracle"]:
        return False
    op = violation.get("op") or {}
    for k, v in (m.get("op") or {}).items():
        if op.get(k) != v:
            return False
    return bool(m)


def run_batch(prop, seed, runs, tier, gen_opts=None, keep_traces=False, errdir=None, repo=None, lanes=None, plans=None,
              wall_cap=None, samples=None):
    """Spawn the 16 lane workers for the given run indices; returns (lines, stats_list, harness_errors, wall)."""
    work = tempfile.mkdtemp(prefix="pvsim-drv-%d-" % os.getpid())
    procs = []
    t0 = time.time()
    try:
        by_lane = {}
        for i in runs:
            by_lane.setdefault(i % N_LANES, []).append(i)
        for lane in sorted(by_lane):
            cfg = {"prop": prop, "verif_seed": seed, "lane": lane, "runs": by_lane[lane], "tier": tier,
                   "out": os.path.join(work, "lane%02d.jsonl" % lane), "errdir": errdir or work, "repo": repo,
                   "gen_opts": gen_opts or {}, "keep_traces": keep_traces, "wall_cap_s": wall_cap or WALL_CAP_S[tier],
                   "samples": samples or []}
            if plans:
                cfg["plans"] = {str(i): plans[i] for i in by_lane[lane] if i in plans}
            cp = os.path.join(work, "lane%02d.cfg.json" % lane)
            json.dump(cfg, open(cp, "w"))
            env = dict(os.environ)
            env["PYTHONHASHSEED"] = env.get("PYTHONHASHSEED", "0")
            env["PYTHONDONTWRITEBYTECODE"] = "1"
            if repo:
                env["VERIF_REPO"] = repo
            # VERIF_MAX_PARALLEL (self-test only): run the 16 lanes in waves; results must not depend on it
            maxpar = int(os.environ.get("VERIF_MAX_PARALLEL") or N_LANES)
            while len([1 for _, _, q in procs if q.poll() is None]) >= maxpar:
                time.sleep(0.05)
            procs.append((lane, cfg, subprocess.Popen([PYTHON, os.path.join(VERIF, "sim", "worker.py"), cp], env=env, cwd="/",
                                                      stdin=subprocess.DEVNULL)))
        deadline = t0 + (wall_cap or WALL_CAP_S[tier])
        herr = []
        for lane, cfg, p in procs:
            try:
                rc = p.wait(timeout=max(1, deadline - time.time()))
            except subprocess.TimeoutExpired:
                p.kill()
                rc = -9
                herr.append("lane %d exceeded the wall-clock cap" % lane)
            if rc not in (0,):
                herr.append("lane %d exited with %r" % (lane, rc))
        lines, stats = [], []
        for lane, cfg, p in procs:
            if not os.path.exists(cfg["out"]):
                herr.append("lane %d wrote nothing" % lane)
                continue
            for raw in open(cfg["out"]):
                raw = raw.strip()
                if not raw:
                    continue
                d = json.loads(raw)
                if "harness_error" in d:
                    errtxt = d["harness_error"]
                    for suffix in ("A", "B"):
                        ep = os.path.join(cfg["errdir"], "%s-lane%02d-%s.err" % (prop, lane, suffix))
                        if os.path.exists(ep):
                            tail = open(ep).read()[-1500:]
                            if tail.strip():
                                errtxt += "\n--- %s ---\n%s" % (os.path.basename(ep), tail)
                    herr.append("lane %d: %s" % (lane, errtxt))
                elif "stats" in d:
                    stats.append(d["stats"])
                elif "hello" in d:
                    stats.append({"_hello": d["hello"]})
                else:
                    d["lane"] = lane
                    lines.append(d)
        lines.sort(key=lambda d: d["run"])
        return lines, stats, herr, time.time() - t0
    finally:
        for _, _, p in procs:
            if p.poll() is None:
                p.kill()
        shutil.rmtree(work, ignore_errors=True)


def merge_stats(stats):
    tot = {}
    hellos = []
    for s in stats:
        if "_hello" in s:
            hellos.append(s["_hello"])
            continue
        for k, v in s.items():
            if isinstance(v, dict):
                d = tot.setdefault(k, {})
                for kk, vv in v.items():
                    if isinstance(vv, dict):
                        dd = d.setdefault(kk, {})
                        for k3, v3 in vv.items():
                            dd[k3] = dd.get(k3, 0) + v3
                    else:
                        d[kk] = d.get(kk, 0) + vv
            elif isinstance(v, list):
                tot.setdefault(k, set()).update(v)
            elif isinstance(v, (int, float)):
                tot[k] = tot.get(k, 0) + v
    return tot, hellos


def write_replay(prop, seed, plan, hs, sig, violation, trace_digest, tier, original_ops, execs):
    d = os.environ.get("VERIF_REPLAY_DIR") or os.path.join(VERIF, "replays")
    os.makedirs(d, exist_ok=True)
    path = os.path.join(d, "%s-%d-%d.json" % (prop, seed, plan["run"]))
    json.dump({
        "property": prop, "verif_seed": seed, "run": plan["run"], "hash_seeds": hs, "signature": sig,
        "violation": violation, "trace_digest": trace_digest, "plan": plan, "found_with": {"tier": tier},
        "repo": repo_rev(REPO), "minimised": {"ops_before": original_ops, "ops_after": len(plan.get("ops", [])), "executions": execs},
    }, open(path, "w"), indent=1, allow_nan=True)
    return path


def replay_file(path, quiet=False):
    """Execute a replay file in fresh interpreters; returns (reproduced, result)."""
    rp = json.load(open(path))
    mod = importlib.import_module(MODULES[rp["property"]])
    ctx = LaneCtx(rp["hash_seeds"][0], rp["hash_seeds"][1], tag="replay")
    try:
        res = mod.execute(ctx, rp["plan"], {})
    finally:
        ctx.close()
    same = res["violation"] is not None and mod.signature(res["violation"]) == rp["signature"] and res["trace_digest"] == rp["trace_digest"]
    return same, res


def replay_in_fresh_process(path):
    p = subprocess.run([PYTHON, os.path.abspath(__file__), json.load(open(path))["property"], "--replay", path],
                       capture_output=True, text=True, timeout=1800, cwd=VERIF)
    return p.returncode == 1 and "VIOLATION" in p.stdout, p.stdout + p.stderr


def evidence(prop, tier, seed, lines, tot, hellos, wall, n_viol, known_lines, mod, extra=None):
    evals = len(lines)
    sigs = {l["coverage_sig"] for l in lines if l.get("nontrivial") and l.get("coverage_sig")}
    samples = [{"run": l["run"], "history": l["sample"]} for l in lines if l.get("sample")][:3]
    cov = {
        "evaluations": evals,
        "distinct_nontrivial": len(sigs),
        "rule": mod.RULE,
        "samples": samples or [{"note": "no sample recorded"}],
        "runs_per_hour": round(evals / wall * 3600) if wall > 0 else 0,
        "lanes": N_LANES,
        "hash_seeds_used": sorted({h for x in hellos for h in x.get("hash_seeds", [])}),
        "repo_under_test": sorted({x.get("repo") for x in hellos if x.get("repo")}),
        "clock_seams_patched": sorted({a for x in hellos for a in (x.get("clock_patched") or [])}),
        "known_findings_consulted": known_lines,
        "real_components": mod.REAL,
        "stubbed_components": mod.STUBS,
    }
    for k, v in tot.items():
        if isinstance(v, set):
            cov[k] = len(v)
        else:
            cov[k] = v
    if "pairs" in cov and isinstance(cov.get("entry_points"), dict):
        cov["ordered_pairs_covered"] = cov.pop("pairs")
        cov["ordered_pairs_total"] = len(cov["entry_points"]) ** 2
        cov["ordered_pairs_note"] = "ordered pairs (A executed before B in one history) over the entry points that occurred in this batch"
    if "clock_span_us" in cov:
        cov["simulated_time_covered_s"] = round(cov.pop("clock_span_us") / 1e6)
    if extra:
        cov.update(extra)
    ev = {
        "property_id": prop, "tier": tier, "seed": seed, "level": "exploration", "coverage": cov,
        "assumptions": mod.ASSUMPTIONS, "wall_s": round(wall, 1), "violations": n_viol,
    }
    os.makedirs(os.path.join(VERIF, "evidence"), exist_ok=True)
    json.dump(ev, open(os.path.join(VERIF, "evidence", "%s.json" % prop), "w"), indent=1, allow_nan=False, default=str)


def main():
    ap = argparse.ArgumentParser()
    ap.add_argument("prop")
    ap.add_argument("--tier", default=os.environ.get("VERIF_TIER") or "quick")
    ap.add_argument("--runs", type=int, default=None)
    ap.add_argument("--first", type=int, default=0)
    ap.add_argument("--replay", default=None)
    ap.add_argument("--no-evidence", action="store_true")
    ap.add_argument("--no-shrink", action="store_true")
    ap.add_argument("--digests", default=None, help="write run -> trace digest JSON here (self-tests)")
    args = ap.parse_args()
    prop = args.prop
    seed = int(os.environ.get("VERIF_SEED") or 0)
    tier = args.tier if args.tier in ("quick", "thorough") else "quick"
    mod = importlib.import_module(MODULES[prop])
    sweep_stale_roots()

    if args.replay:
        try:
            same, res = replay_file(args.replay)
        except HarnessError as e:
            print("HARNESS-ERROR replay: %s" % e)
            return 2
        if res["violation"]:
            print(json.dumps(res["violation"], indent=1, default=str)[:3000])
        if same:
            print("VIOLATION property=%s replay=%s" % (prop, os.path.abspath(args.replay)))
            return 1
        print("replay did not reproduce the recorded violation (violation now: %r)" % (mod.signature(res["violation"]),))
        return 0

    n = args.runs if args.runs is not None else TIERS[prop][tier]
    runs = list(range(args.first, args.first + n))
    print("VERIF_SEED=%d property=%s tier=%s runs=%d..%d repo=%s" % (seed, prop, tier, runs[0], runs[-1], REPO), flush=True)
    sample_runs = runs[:3]
    lines, stats, herr, wall = run_batch(prop, seed, runs, tier, samples=sample_runs, gen_opts=getattr(mod, "gen_opts", lambda t: {})(tier))
    if herr:
        herr.sort(key=lambda h: 0 if ":" in h and "exited with" not in h else 1)     # detailed messages first
        for h in herr[:4]:
            print("HARNESS-ERROR %s" % h[:3000])
        return 2
    if len(lines) != len(runs):
        print("HARNESS-ERROR %d of %d runs reported" % (len(lines), len(runs)))
        return 2
    if args.digests:
        json.dump({str(l["run"]): l["trace_digest"] for l in lines}, open(args.digests, "w"))
    tot, hellos = merge_stats(stats)
    known = load_known()
    known_lines = list(known.get("fixed", [])) + [f.get("line", "") for f in known.get("findings", [])]
    viol = [l for l in lines if l["violation"]]
    listed, unlisted = [], []
    for l in viol:
        hit = [f for f in known.get("findings", []) if matches(f, prop, l["violation"])]
        (listed if hit else unlisted).append((l, hit))
    for fnd in known.get("findings", []):
        if fnd.get("property") == prop and any(fnd in hit for _, hit in listed):
            print("KNOWN-FINDING: property=%s %s" % (prop, fnd.get("what", "")))
    trunc = tot.get("budget_truncated", 0)
    extra = {"violating_runs": [l["run"] for l in viol][:20], "truncated_by_budget": trunc}
    if not args.no_evidence:
        evidence(prop, tier, seed, lines, tot, hellos, wall, len(unlisted), known_lines, mod, extra)
    if trunc > 0.05 * len(runs):
        print("HARNESS-ERROR %d of %d runs truncated by the step budget: cannot explore" % (trunc, len(runs)))
        return 2
    if not unlisted:
        print("OK property=%s runs=%d wall=%.1fs distinct=%d" % (prop, len(lines), wall, len({l['coverage_sig'] for l in lines})))
        return 0

    first = unlisted[0][0]
    run = first["run"]
    print("violation in run %d: %s" % (run, json.dumps(first["violation"], default=str)[:1500]), flush=True)
    lane = run % N_LANES
    hs = [hash_seed_for(seed, lane, "A"), hash_seed_for(seed, lane, "B")]
    plan = mod.gen_plan(seed, run, **getattr(mod, "gen_opts", lambda t: {})(tier))
    sig = first["sig"]
    try:
        ctx = LaneCtx(hs[0], hs[1], tag="shrink")
        try:
            res0 = mod.execute(ctx, plan, {})
            if res0["violation"] is None or mod.signature(res0["violation"]) != sig or res0["trace_digest"] != first["trace_digest"]:
                print("HARNESS-ERROR non-reproducible: run %d gave %r / %s on re-execution, batch had %r / %s" % (
                    run, mod.signature(res0["violation"]), res0["trace_digest"], sig, first["trace_digest"]))
                return 2
            n_before = len(plan.get("ops", []))
            execs = 0
            if not args.no_shrink:
                sh = Shrinker(mod, ctx, plan, sig, max_execs=mod.SHRINK_EXECS, log=lambda s: print("  shrink: " + s, flush=True))
                try:
                    plan = sh.run()
                except HarnessError:
                    raise
                except Exception as e:      # a bug in the minimiser must not hide the violation: report the best plan reached so far
                    import traceback

                    traceback.print_exc()
                    print("  shrink: stopped by %s: %s (reporting the smallest failing plan found so far)" % (type(e).__name__, e), flush=True)
                    plan = sh.best
                execs = sh.execs
            res1 = mod.execute(ctx, plan, {})
        finally:
            ctx.close()
    except HarnessError as e:
        print("HARNESS-ERROR while minimising: %s" % e)
        return 2
    if res1["violation"] is None or mod.signature(res1["violation"]) != sig:
        print("HARNESS-ERROR minimised plan lost the violation")
        return 2
    path = write_replay(prop, seed, plan, hs, sig, res1["violation"], res1["trace_digest"], tier, n_before, execs)
    ok, out = replay_in_fresh_process(path)
    if not ok:
        print("HARNESS-ERROR non-reproducible in a fresh process: %s\n%s" % (path, out[-2000:]))
        return 2
    print(json.dumps(res1["violation"], indent=1, default=str)[:3000])
    print("minimised: %d -> %d ops, %d executions" % (n_before, len(plan.get("ops", [])), execs))
    print("VIOLATION property=%s replay=%s" % (prop, path))
    return 1


if __name__ == "__main__":
    try:
        rc = main()
    except SystemExit:
        raise
    except BaseException:
        import traceback

        traceback.print_exc()
        print("HARNESS-ERROR driver exception (see traceback on stderr)")
        rc = 2
    sys.exit(rc)
