#!/venv/bin/python
"""Self-tests of the simulator.  --setup: reduced form (environment sanity + small determinism
probe); full form is run by hand / by the thorough tier (see DESIGN.md 2.8)."""
import json
import os
import subprocess
import sys
import tempfile

VERIF = os.path.dirname(os.path.dirname(os.path.abspath(__file__)))
sys.path.insert(0, VERIF)
from sim.common import PYTHON  # noqa: E402


def digests(prop, runs, first=0, hashseed="0", env_extra=None):
    fd, path = tempfile.mkstemp(prefix="pvsim-self-", suffix=".json")
    os.close(fd)
    env = dict(os.environ)
    env["PYTHONHASHSEED"] = hashseed
    env.update(env_extra or {})
    try:
        p = subprocess.run([PYTHON, os.path.join(VERIF, "checks", "run.py"), prop, "--runs", str(runs), "--first", str(first),
                            "--no-evidence", "--digests", path], env=env, capture_output=True, text=True, timeout=3000)
        if p.returncode != 0:
            return None, p.stdout[-2000:] + p.stderr[-2000:]
        return json.load(open(path)), ""
    finally:
        os.unlink(path)


def determinism(prop, runs, full=False):
    a, ea = digests(prop, runs, hashseed="0")
    b, eb = digests(prop, runs, hashseed="12345", env_extra={"VERIF_MAX_PARALLEL": "4"} if full else None)
    if a is None or b is None:
        print("SELFTEST-FAIL %s batch failed: %s %s" % (prop, ea, eb))
        return False
    diff = [k for k in a if a[k] != b.get(k)]
    if diff:
        print("SELFTEST-FAIL %s: %d of %d runs differ between two executions (e.g. run %s)" % (prop, len(diff), len(a), diff[0]))
        return False
    print("selftest %s: %d runs x 2 executions (driver PYTHONHASHSEED 0 / 12345%s): identical trace digests" % (
        prop, len(a), ", lane concurrency 16 / 4" if full else ""))
    return True


def main():
    setup = "--setup" in sys.argv
    import importlib
    for mod in ("numpy", "scipy", "pandas", "joblib", "attr"):
        importlib.import_module(mod)
    ok = True
    sizes = {"C17": 32, "C20": 32, "C16": 16} if setup else {"C17": 200, "C20": 200, "C16": 64}
    for prop, n in sizes.items():
        ok = determinism(prop, n, full=not setup) and ok
    return 0 if ok else 1


if __name__ == "__main__":
    sys.exit(main())
